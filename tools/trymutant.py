#!/venv/bin/python
"""tools/trymutant.py <patch> [--tests] [--check Cxx[:runs]]...
Applies a patch to a scratch copy of /repo (on tmpfs, removed afterwards); optionally runs the
repository's test suite there, then runs the named checks against the patched mako package."""
import os, shutil, subprocess, sys, tempfile, time

def main():
    args = sys.argv[1:]
    patch = os.path.abspath(args[0])
    run_tests = "--tests" in args
    checks = [args[i + 1] for i, a in enumerate(args) if a == "--check"]
    base = "/dev/shm" if os.path.isdir("/dev/shm") else tempfile.gettempdir()
    work = tempfile.mkdtemp(prefix="mako-verif-try-", dir=base)
    try:
        subprocess.run(["git", "-C", "/repo", "worktree", "add", "--detach", "-f", os.path.join(work, "repo"), "HEAD"],
                       check=True, stdout=subprocess.DEVNULL, stderr=subprocess.DEVNULL)
        repo = os.path.join(work, "repo")
        demos = [os.path.abspath(args[i + 1]) for i, a in enumerate(args) if a == "--demo"]
        envd = dict(os.environ, PYTHONDONTWRITEBYTECODE="1", PYTHONPATH=repo)
        for d in demos:
            r = subprocess.run(["/venv/bin/python", d], cwd=work, env=envd, stdout=subprocess.PIPE, stderr=subprocess.STDOUT, timeout=600)
            print("DEMO on clean tree: exit=%d %s" % (r.returncode, "(ok)" if r.returncode == 0 else "UNEXPECTED: " + r.stdout.decode()[-300:]))
        r = subprocess.run(["git", "-C", repo, "apply", patch], stdout=subprocess.PIPE, stderr=subprocess.STDOUT)
        if r.returncode:
            print("PATCH DOES NOT APPLY:", r.stdout.decode()[-500:])
            return 2
        env = dict(os.environ, PYTHONDONTWRITEBYTECODE="1")
        for d in demos:
            r = subprocess.run(["/venv/bin/python", d], cwd=work, env=envd, stdout=subprocess.PIPE, stderr=subprocess.STDOUT, timeout=600)
            print("DEMO with the change: exit=%d %s" % (r.returncode, "(fails, as it should)" if r.returncode != 0 else "UNEXPECTED PASS"))
        if run_tests:
            t0 = time.time()
            env2 = dict(env, PYTHONPATH=repo)
            r = subprocess.run(["/venv/bin/python", "-m", "pytest", "-q", "-p", "no:cacheprovider", "-x", "-q",
                                "--deselect", "test/test_exceptions.py::ExceptionsTest::test_py_utf8_html_error_template",
                                "--deselect", "test/test_exceptions.py::ExceptionsTest::test_utf8_format_exceptions_pygments",
                                "--deselect", "test/test_exceptions.py::ExceptionsTest::test_custom_tback"],
                               cwd=repo, env=env2, stdout=subprocess.PIPE, stderr=subprocess.STDOUT)
            tail = r.stdout.decode()[-400:].strip().splitlines()[-1:]
            print("TESTS %s (%.0fs): %s" % ("PASS" if r.returncode == 0 else "FAIL", time.time() - t0, tail))
        for c in checks:
            prop, _, runs = c.partition(":")
            env3 = dict(env, VERIF_MAKO_PATH=repo, VERIF_OUT=os.path.join(work, "out"))
            cmd = ["/venv/bin/python", "-m", "vsim.cli", prop, "--tier", "quick"] + (["--runs", runs] if runs else [])
            t0 = time.time()
            r = subprocess.run(cmd, cwd="/verif", env=env3, stdout=subprocess.PIPE, stderr=subprocess.STDOUT)
            out = r.stdout.decode("utf-8", "replace")
            sigs = [ln.split("signature=", 1)[1].split(" ", 1)[0] for ln in out.splitlines() if "signature=" in ln]
            print("CHECK %s exit=%d (%.0fs) signatures=%s" % (prop, r.returncode, time.time() - t0, sigs))
            for ln in out.splitlines():
                if ln.startswith("  signature=") or ln.startswith("HARNESS"):
                    print("   ", ln[:400])
    finally:
        subprocess.run(["git", "-C", "/repo", "worktree", "remove", "--force", os.path.join(work, "repo")],
                       stdout=subprocess.DEVNULL, stderr=subprocess.DEVNULL)
        shutil.rmtree(work, ignore_errors=True)
        subprocess.run(["git", "-C", "/repo", "worktree", "prune"], stdout=subprocess.DEVNULL, stderr=subprocess.DEVNULL)

if __name__ == "__main__":
    sys.exit(main())
