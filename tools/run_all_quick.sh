#!/bin/sh
# Runs every claimed check's quick tier against /repo (rewrites evidence/<id>.json); exit status = worst one.
cd "$(dirname "$0")/.." || exit 2
worst=0
for p in C08 C13 C14 C15 C16 C17; do
  ./check $p --tier quick > /tmp/quick_$p.log 2>&1; rc=$?
  tail -1 /tmp/quick_$p.log | cut -c1-220
  grep -c "^VIOLATION" /tmp/quick_$p.log | sed "s/^/  violations: /"
  [ $rc -gt $worst ] && worst=$rc
done
exit $worst
