#!/venv/bin/python
"""Regenerates MANIFEST.json from one table (so it stays valid at all times)."""
import json, os, sys
sys.path.insert(0, os.path.dirname(os.path.abspath(__file__)))

NA = {
 "C01": "pure function of the template string (plus a wall-clock performance bound, which simulation cannot decide): no schedule, clock, fault or history in it",
 "C02": "pure function of (expression, filter configuration): not a simulation target",
 "C03": "pure function of the program; its exception-exit clause (loop restored) is exercised inside the C13 engine",
 "C04": "pure function of the program (name resolution): not a simulation target",
 "C05": "pure function of the program; exception paths through defs/buffers/caller are C13's",
 "C06": "pure function of the set of programs (inheritance dispatch): not a simulation target",
 "C07": "pure function of program set + directory layout: no clock, schedule or fault is quantified",
 "C09": "pure function of (URI, configuration, directory layout); kept as an always-on file-system tripwire inside the C14/C15/C16 runs (hostile URI spellings, sentinel file outside the roots), reported under those properties' own clauses",
 "C10": "pure function of a string (escaping filters)",
 "C11": "pure function of the template text (compile-error locations)",
 "C12": "pure function of program + raise position; the warning registries are history but no schedule, clock or fault is quantified",
 "C18": "pure function of (bytes, declaration, path); source encoding is only a swarm knob of the C15/C08 runs",
 "C19": "pure function of the program (embedded Python keeps its meaning)",
 "C20": "pure function of the template text (message extraction)",
}
PENDING = {}

CHECKS = {}

def check(pid, category, text, note, technique, design_ref, thorough=True):
    c = {
        "property_id": pid,
        "quick_cmd": "./check %s --tier quick" % pid,
        "evidence_file": "evidence/%s.json" % pid,
        "replay_cmd_template": "./check --replay {path}",
        "engine": "vsim",
        "level_claimed": {"category": category, "text": text, "design_ref": design_ref},
        "level_note": note,
        "technique": technique,
    }
    if thorough:
        c["thorough_cmd"] = "./check %s --tier thorough" % pid
    CHECKS[pid] = c

import manifest_table  # fills CHECKS / PENDING
manifest_table.fill(check, PENDING)

na = dict(NA)
for pid, why in PENDING.items():
    if pid not in CHECKS:
        na[pid] = why
for pid in CHECKS:
    na.pop(pid, None)

doc = {
 "version": 1,
 "setup_cmd": "cd /verif && /venv/bin/python -c \"import mako, beaker, dogpile.cache, sys; sys.path.insert(0,'.'); import vsim.runner, vsim.fs, vsim.seams; print('vsim ok, mako', mako.__version__)\"",
 "hooks": {
  "guard": "MAKO_VERIF",
  "enable": "no hook exists in /repo: every seam is a module-global rebinding done from /verif/vsim/seams.py at run time (the guard name is reserved and unused); checks import Mako from /repo's working tree (editable install), so there is nothing to build",
  "baseline_off_cmd": "cd /repo && /venv/bin/python -m pytest -ra -q -p no:cacheprovider --timeout=900 --continue-on-collection-errors",
  "source_commits": [],
  "add_only": True,
 },
 "engines": manifest_table.ENGINES,
 "checks": [CHECKS[k] for k in sorted(CHECKS)],
 "not_applicable": [{"property_id": k, "reason": na[k]} for k in sorted(na)],
 "notes": manifest_table.NOTES,
}
with open(os.path.join(os.path.dirname(os.path.abspath(__file__)), "MANIFEST.json"), "w") as f:
    json.dump(doc, f, indent=1)
print("MANIFEST.json written:", sorted(CHECKS), "n/a:", sorted(na))
