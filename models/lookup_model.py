"""Reference model for TemplateLookup over time (property C14; reused by C16).

The model states the *property*, not the implementation.  Where the property
leaves a choice the model accepts a set of outcomes:

  * any served template with compile stamp T and content version v is
    admissible iff v is the file's current version OR the file's recorded
    mtime m < T + 1  (the uniform freshness rule);
  * a cached entry whose file has m <= T and has not been touched since the
    entry was last returned MUST come back as the very same object with zero
    Template constructions (identity rule);
  * an uncached URI is served from the first configured directory whose
    contained, normalised path is a file; none -> TopLevelLookupException;
    a URI normalising outside every root is never served;
  * a failed load leaves no entry behind;
  * LRU: size <= floor(1.5 n) after every operation, victims less recently
    fetched than survivors, put_* entries must survive (known finding).

The model's cache mirrors the *observed* key set of the collection after each
call (so it never guesses when the implementation evicts) and checks every
change of that key set for legality.
"""

import posixpath
import re


class FileRec:
    __slots__ = ("tag", "mtime", "health", "changed")

    def __init__(self, tag, mtime, health, changed):
        self.tag = tag  # (uri index, dir index, version)
        self.mtime = mtime
        self.health = health  # ok | lex | py | exec
        self.changed = changed  # model seq of the last change to this path


class Entry:
    __slots__ = ("obj", "kind", "path", "T", "tag", "validated", "touch", "overwritten", "put")

    def __init__(self, obj, kind, path, T, tag, seq, put=False):
        self.obj = obj
        self.kind = kind  # file | string
        self.path = path
        self.T = T
        self.tag = tag
        self.validated = seq
        self.touch = seq
        self.overwritten = False
        self.put = put


BROKEN_EXC = {"lex": "SyntaxException", "py": "SyntaxException", "exec": "ZeroDivisionError"}


def resolve(dirs, uri):
    """-> list of candidate absolute paths in directory order (contained only),
    and a flag telling whether some directory's join escapes its root."""
    u = re.sub(r"^/+", "", uri.replace("\\", "/"))
    out = []
    escapes = False
    for d in dirs:
        p = posixpath.normpath(posixpath.join(d, u))
        if p == d or not p.startswith(d + "/"):
            escapes = True
            continue
        out.append(p)
    return out, escapes


class LookupModel:
    def __init__(self, dirs, fs_checks, collection_size, moddir, known_sink):
        self.dirs = list(dirs)
        self.fs_checks = fs_checks
        self.n = collection_size
        self.cap = None if collection_size == -1 else int(collection_size * 1.5)
        self.moddir = moddir
        self.files = {}
        self.unreadable = set()
        self.modfiles = {}  # module path -> (tag, T0)
        self.cache = {}
        self.puts = {}  # uri -> Entry for every put_* (survives eviction in the model)
        self.seq = 0
        self.violations = known_sink  # list; engine turns entries into Violation records
        self.probes = {}

    # ------------------------------------------------------------ bookkeeping
    def tick(self):
        self.seq += 1
        return self.seq

    def probe(self, name):
        self.probes[name] = self.probes.get(name, 0) + 1

    def flag(self, cls, msg, detail=None):
        sig = "C14/" + cls + ((":" + detail) if detail else "")
        self.violations.append((sig, msg))

    def file_written(self, path, tag, mtime, health):
        self.files[path] = FileRec(tag, mtime, health, self.tick())

    def file_deleted(self, path):
        if path in self.files:
            del self.files[path]
        self.unreadable.discard(path)
        self.tick()
        self._gone_seq = self.seq

    def file_touched(self, path):
        if path in self.files:
            self.files[path].changed = self.tick()

    def restart(self):
        self.cache = {}
        self.puts = {}

    # --------------------------------------------------------------- helpers
    def expected_path(self, uri):
        cands, escapes = resolve(self.dirs, uri)
        for p in cands:
            if p in self.files:
                return p, escapes
        return None, escapes

    def module_path(self, uri):
        if not self.moddir:
            return None
        u = uri.replace("\\", "/").lstrip("/")
        return posixpath.normpath(posixpath.join(self.moddir, posixpath.normpath(u) + ".py"))

    # ------------------------------------------------------------------ get
    def check_get(self, uri, t0, t1, outcome, ncons, wrote_module, injected, info):
        """outcome: ("served", obj, tag, T, filename) | ("raised", exc_type_names(mro), message)
        info(obj) is not used by the model; tags come pre-extracted.
        Returns the model's description of what happened (for the render oracle)."""
        seq = self.tick()
        e = self.cache.get(uri)
        kind = outcome[0]
        relaxed = bool(injected)

        def is_lookup_exc(names):
            return "TemplateLookupException" in names

        # ---- A: cached and unconditionally stable
        if e is not None and (not self.fs_checks or e.kind == "string"):
            if kind != "served" or outcome[1] is not e.obj or ncons != 0:
                self.flag("identity-lost", "cached %s entry for %r not returned as the same object (%s, constructions=%d)"
                          % ("string" if e.kind == "string" else "no-filesystem-checks", uri, _short(outcome), ncons))
                self._resync(uri, outcome, seq)
            else:
                e.touch = seq
                e.validated = seq
                self.probe("stable-hit")
            return

        # ---- B: cached file entry under filesystem checks
        if e is not None:
            f = self.files.get(e.path)
            if f is None:
                if kind == "raised" and is_lookup_exc(outcome[1]):
                    self.probe("cached-file-gone")
                    del self.cache[uri]
                    return
                self.flag("wrong-exception", "cached entry %r whose file is gone: expected TemplateLookupException, got %s"
                          % (uri, _short(outcome)))
                self._resync(uri, outcome, seq)
                return
            must_reload = f.mtime >= e.T + 1
            must_keep = (f.mtime <= e.T) and f.changed <= e.validated and e.path not in self.unreadable
            if not must_reload and not must_keep:
                self.probe("edit-within-one-second-zone")
            if kind == "served" and outcome[1] is e.obj:
                if ncons != 0 and not relaxed:
                    self.flag("identity-lost", "same object returned for %r but %d Template constructions happened" % (uri, ncons))
                if e.tag != f.tag and must_reload and not relaxed:
                    self.flag("stale-beyond-one-second",
                              "%r served version %s (stamp %.3f) while file has %s with mtime %.3f >= stamp + 1"
                              % (uri, e.tag, e.T, f.tag, f.mtime))
                e.touch = seq
                e.validated = seq
                self.probe("same-object-fast-path")
                return
            if kind == "served":
                if must_keep and not relaxed:
                    self.flag("identity-lost",
                              "%r: file unchanged (mtime %.3f <= stamp %.3f) but a new Template was returned (constructions=%d)"
                              % (uri, f.mtime, e.T, ncons))
                self.probe("reload-because-stale")
                self._check_new(uri, e.path, outcome, t0, t1, ncons, wrote_module, seq, relaxed)
                return
            # raised
            del self.cache[uri]
            names = outcome[1]
            if relaxed and ("OSError" in names or is_lookup_exc(names)):
                self.probe("faulted-call-raised")
                return
            if must_keep:
                self.flag("wrong-exception", "%r: unchanged cached entry raised %s" % (uri, _short(outcome)))
                return
            self._check_raise(uri, e.path, outcome, relaxed)
            return

        # ---- C: not cached
        put = self.puts.get(uri)
        if put is not None:
            # a put_* entry that is no longer in the collection
            if kind == "served" and outcome[1] is put.obj:
                # cannot happen (it is not in the collection); keep the model honest
                self.cache[uri] = put
                return
            self.flag("evicted-put-entry-lost",
                      "put_string/put_template entry %r was evicted from the bounded collection; lookup now gives %s"
                      % (uri, _short(outcome)))
            del self.puts[uri]
            # fall through: judge the outcome as an ordinary uncached lookup
        p, escapes = self.expected_path(uri)
        if p is None:
            if kind == "served":
                if escapes:
                    self.flag("outside-root", "%r normalises outside a root but was served (%s)" % (uri, _short(outcome)))
                else:
                    self.flag("wrong-directory", "%r has no file in any directory but was served (%s)" % (uri, _short(outcome)))
                self._resync(uri, outcome, seq)
                return
            names = outcome[1]
            if escapes:
                if not is_lookup_exc(names) and not (relaxed and "OSError" in names):
                    self.flag("wrong-exception", "hostile uri %r: expected a TemplateLookupException, got %s" % (uri, _short(outcome)))
                self.probe("hostile-uri-rejected")
                return
            if "TopLevelLookupException" not in names and not (relaxed and ("OSError" in names or is_lookup_exc(names))):
                self.flag("wrong-exception", "%r has no file: expected TopLevelLookupException, got %s" % (uri, _short(outcome)))
            self.probe("no-file-toplevel")
            return
        if kind == "served":
            self._check_new(uri, p, outcome, t0, t1, ncons, wrote_module, seq, relaxed)
            return
        names = outcome[1]
        if relaxed and ("OSError" in names or is_lookup_exc(names)):
            self.probe("faulted-call-raised")
            return
        self._check_raise(uri, p, outcome, relaxed)

    def _sources(self, uri, path):
        """Admissible (tag, health, T_or_None) sources for a (re)load of uri from path."""
        f = self.files[path]
        out = [(f.tag, f.health, None)]
        mp = self.module_path(uri)
        if mp is not None and mp in self.modfiles:
            mtag, T0, mhealth = self.modfiles[mp]
            if f.mtime < T0 + 1:
                out.append((mtag, mhealth, T0))
        return out, f

    def _check_new(self, uri, path, outcome, t0, t1, ncons, wrote_module, seq, relaxed):
        _, obj, tag, T, filename = outcome
        f = self.files[path]
        if ncons != 1 and not relaxed:
            self.flag("identity-lost", "%r: expected exactly one Template construction for a (re)load, saw %d" % (uri, ncons))
        if filename != path:
            cands, _ = resolve(self.dirs, uri)
            if filename in cands or filename in self.files:
                self.flag("wrong-directory", "%r served from %s although %s comes first and contains it"
                          % (uri, _tail(filename), _tail(path)))
            else:
                self.flag("outside-root", "%r served from %s which is no configured location" % (uri, _tail(filename)))
            self.cache[uri] = Entry(obj, "file", filename, T, tag, seq)
            return
        mp = self.module_path(uri)
        reused = mp is not None and not wrote_module
        if path in self.unreadable and not reused and not relaxed:
            self.flag("wrong-exception", "%r is unreadable but was compiled and served" % uri)
        if reused:
            rec = self.modfiles.get(mp)
            if rec is None:
                self.flag("stamp-outside-call", "%r: module directory in use, nothing written, but no module file known" % uri)
            else:
                if rec[0] != tag or abs(rec[1] - T) > 1e-6:
                    self.flag("stamp-outside-call", "%r: reused module should carry %s/%.3f, template has %s/%.3f"
                              % (uri, rec[0], rec[1], tag, T))
                self.probe("module-file-reused")
        else:
            if not (t0 - 1e-6 <= T <= t1 + 1e-6):
                self.flag("stamp-outside-call",
                          "%r: compile stamp %.6f lies outside the compiling call [%.6f, %.6f]" % (uri, T, t0, t1))
            if t1 > t0 and int(t0) != int(t1):
                self.probe("compile-straddles-second")
        if tag != f.tag:
            # content compiled from another version (or, with a module directory
            # shared by several source directories, from a same-named file of another
            # directory): only the freshness rule decides whether that is allowed
            if tag[:2] != f.tag[:2]:
                self.probe("module-of-other-directory-reused")
            if f.mtime >= T + 1:
                detail = "moddir-straddle" if reused else None
                self.flag("stale-beyond-one-second",
                          "%r (re)loaded as %s with stamp %.3f while the file has %s, mtime %.3f >= stamp + 1"
                          % (uri, tag, T, f.tag, f.mtime), detail)
            else:
                self.probe("stale-within-second-served")
        elif f.health != "ok" and not relaxed:
            self.flag("wrong-exception", "%r: current content is broken (%s) but a template was served" % (uri, f.health))
        self.cache[uri] = Entry(obj, "file", path, T, tag, seq)

    def _check_raise(self, uri, path, outcome, relaxed):
        names = outcome[1]
        srcs, f = self._sources(uri, path)
        ok = False
        if path in self.unreadable and ("OSError" in names or "TemplateLookupException" in names):
            ok = True
            self.probe("unreadable-raised")
        for (tag, health, T0) in srcs:
            if health != "ok" and BROKEN_EXC[health] in names:
                ok = True
                self.probe("broken-content-raised")
        if not ok:
            detail = None
            mp = self.module_path(uri)
            rec = self.modfiles.get(mp) if mp is not None else None
            if rec is not None and rec[2] != "ok" and BROKEN_EXC[rec[2]] in names and f.mtime >= rec[1] + 1:
                # the module file left behind by an earlier failed load (its body raises when imported) is newer
                # by file mtime than the corrected source, although it was generated >= 1 s before the correction
                detail = "stale-broken-module"
            self.flag("wrong-exception", "%r (file %s, health %s): unexpected %s%s"
                      % (uri, _tail(path), f.health, _short(outcome),
                         " -- raised by the stale module file stamped %.3f, source mtime %.3f" % (rec[1], f.mtime) if detail else ""), detail)

    def _resync(self, uri, outcome, seq):
        if outcome[0] == "served":
            _, obj, tag, T, filename = outcome
            self.cache[uri] = Entry(obj, "file" if filename else "string", filename, T, tag, seq)
        else:
            self.cache.pop(uri, None)

    # ------------------------------------------------------------------ put
    def did_put(self, uri, obj, kind, path, T, tag):
        seq = self.tick()
        old = self.cache.get(uri)
        ent = Entry(obj, kind, path, T, tag, seq, put=True)
        if old is not None:
            ent.touch = old.touch
            ent.overwritten = True
        self.cache[uri] = ent
        self.puts[uri] = ent

    # ------------------------------------------------------- key-set legality
    def observe_keys(self, keys, what):
        keys = set(keys)
        mine = set(self.cache)
        if self.cap is not None and len(keys) > self.cap:
            self.flag("lru-bound", "collection holds %d templates after %s; bound is floor(1.5*%d)=%d"
                      % (len(keys), what, self.n, self.cap))
        phantom = keys - mine
        evicted = mine - keys
        for u in phantom:
            # the implementation holds an entry the model thinks was dropped
            self.flag("lookup-poisoned", "collection still holds %r after %s (a failed or removed entry was kept)" % (u, what))
        if evicted:
            if self.cap is None:
                for u in evicted:
                    self.flag("entry-lost", "unbounded collection lost %r after %s" % (u, what))
            else:
                self.probe("lru-eviction")
                surv = [self.cache[u] for u in keys if u in self.cache]
                for u in evicted:
                    ev = self.cache[u]
                    if ev.put:
                        self.probe("evicted-put-entry")
                    if ev.overwritten:
                        continue
                    for s in surv:
                        if s.overwritten:
                            continue
                        if ev.touch > s.touch:
                            self.flag("lru-order", "evicted %r (fetched at step %d) although survivor fetched earlier (step %d)"
                                      % (u, ev.touch, s.touch))
                            break
                if len(keys) < min(self.n, len(mine)):
                    self.flag("lru-order", "eviction after %s left %d entries, fewer than collection_size=%d"
                              % (what, len(keys), self.n))
            for u in evicted:
                del self.cache[u]
        for u in phantom:
            # adopt, so one defect is reported once
            self.cache[u] = Entry(None, "file", None, 0.0, None, self.seq)


def _short(outcome):
    if outcome[0] == "served":
        return "served %s stamp %.3f" % (outcome[2], outcome[3])
    return "raised %s: %s" % (outcome[1][0], str(outcome[2])[:80])


def _tail(p):
    if p is None:
        return None
    parts = p.split("/")
    return "/".join(parts[-3:])
