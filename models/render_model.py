"""Reference interpreter for the C13 engine's abstract template programs.

Explicit buffer stack, per-activation caller and loop stacks.  An exception
(ModelBoom) raised by a call-out unwinds through Python try/finally blocks that
do what the property says every abandoned construct must amount to: buffers
pushed by the construct are popped and their partial content discarded, text
already written to a surviving buffer stays, `caller` and `loop` of the
enclosing activation are what they were.
"""


class ModelBoomBase(BaseException):
    """a raise that is not an Exception: no `% except Boom`, no include_error_handler catches it"""

    def __init__(self, i, k, construct):
        BaseException.__init__(self, "boom(%s,%d)" % (i, k))
        self.i = i
        self.k = k
        self.construct = construct


class ModelBoom(Exception):
    def __init__(self, i, k, construct):
        Exception.__init__(self, "boom(%s,%d)" % (i, k))
        self.i = i
        self.k = k
        self.construct = construct


class Interp:
    def __init__(self, prog, fault=None, cache=None, include_handler=False, lookup_callouts=True, undef=False):
        self.undef = undef  # the context lacks the name a marked def needs: its prologue raises
        self.prog = prog
        self.fault = tuple(fault[:2]) if fault else None
        self.base = bool(fault and len(fault) > 2 and fault[2] == "base")
        self.cache = cache if cache is not None else {}
        self.include_handler = include_handler
        self.counts = {}
        self.order = []
        self.bufs = [[]]
        self.active = ["top"]
        self.handled_by = None
        self.raised_in = None
        self.ns_calls = 0

    # ------------------------------------------------------------ primitives
    def w(self, s):
        self.bufs[-1].append(s)

    def callout(self, i):
        n = self.counts.get(i, 0) + 1
        self.counts[i] = n
        self.order.append((i, n))
        if self.fault == (i, n):
            self.raised_in = self.active[-1]
            raise (ModelBoomBase if self.base else ModelBoom)(i, n, self.active[-1])

    def push(self):
        self.bufs.append([])

    def pop(self):
        return "".join(self.bufs.pop())

    # --------------------------------------------------------------- program
    def render(self):
        """-> ("ok", text) | ("raised", boom, text_written_directly_to_the_top_buffer)"""
        p = self.prog
        try:
            if p.get("base"):
                self.callout(p["base"]["lookup"])
                self.run_base()
            else:
                self.run_main_body()
        except (ModelBoom, ModelBoomBase) as e:
            # everything above the top buffer has been popped by the finally blocks
            assert len(self.bufs) == 1, self.bufs
            return ("raised", e, "".join(self.bufs[0]))
        assert len(self.bufs) == 1
        return ("ok", "".join(self.bufs[0]))

    def render_def(self, name):
        """get_def(name).render(): the def alone, with the template's `self` namespace set up"""
        d = {x["name"]: x for x in self.prog["defs"]}[name]
        try:
            r = self.call_def(d, self.main_env(), None, None)
            self.w(r)
        except (ModelBoom, ModelBoomBase) as e:
            assert len(self.bufs) == 1, self.bufs
            return ("raised", e, "".join(self.bufs[0]))
        assert len(self.bufs) == 1
        return ("ok", "".join(self.bufs[0]))

    def main_env(self):
        return {"tmpl": "main", "defs": {d["name"]: d for d in self.prog["defs"]}, "caller": None, "loops": []}

    def run_main_body(self):
        env = self.main_env()
        self.active.append("body")
        try:
            self.run_nodes(self.prog["body"], env)
        finally:
            self.active.pop()

    def run_base(self):
        b = self.prog["base"]
        env = {"tmpl": "base", "defs": {}, "caller": None, "loops": []}
        self.active.append("base-body")
        try:
            self.run_nodes(b["pre"], env)
            hd = self.prog.get("child_hd")
            if hd is not None:
                self.run_block({"name": "hd", "f": None, "body": hd}, self.main_env())
            else:
                self.run_block({"name": "hd", "f": None, "body": b["hd_body"]}, env)
            self.w("[")
            self.run_main_body()  # ${next.body()}
            self.w("]")
            self.run_nodes(b["post"], env)
        finally:
            self.active.pop()

    # ----------------------------------------------------------------- nodes
    def run_nodes(self, nodes, env):
        for n in nodes:
            getattr(self, "n_" + n["t"])(n, env)

    def n_text(self, n, env):
        self.w(n["s"])

    def n_probe(self, n, env):
        self.callout(n["i"])
        self.w("p%d" % n["i"])

    def n_str(self, n, env):
        self.callout(n["i"])
        self.w("s%d" % n["i"])

    def n_sc(self, n, env):
        # a @supports_caller Python function: pushes a caller frame, may raise, writes, pops the frame
        self.active.append("supports-caller")
        try:
            self.callout(n["i"])
        finally:
            self.active.pop()
        self.w("sc%d" % n["i"])

    def n_callerflag(self, n, env):
        # ${'C1' if caller else 'C0'}: a def called plainly has no caller; one invoked through <%call> has
        self.w("C1" if env["caller"] else "C0")

    def n_loopidx(self, n, env):
        self.w("i%d" % env["loops"][-1][0])

    def n_for(self, n, env):
        if n.get("c") is not None:
            self.callout(n["c"])  # the iterable expression, evaluated before the loop context exists
        st = [0]
        env["loops"].append(st)
        self.active.append("for")
        try:
            k = 0
            while True:
                self.callout(n["i"])  # __next__
                if k >= n["n"]:
                    break
                k += 1
                self.run_nodes(n["body"], env)
                st[0] += 1
        finally:
            self.active.pop()
            env["loops"].pop()

    def n_try(self, n, env):
        depth = len(self.bufs)
        try:
            self.active.append("try")
            try:
                self.run_nodes(n["body"], env)
            finally:
                self.active.pop()
        except ModelBoom as e:
            assert len(self.bufs) == depth
            if e.i == "undef" and n.get("exc", "all") in ("ctx", "ctx_tuple", "ctx_as"):
                raise  # the handler names the injected exception's class only: a NameError passes through
            self.handled_by = "try"
            self.run_nodes(n["handler"], env)

    def n_textf(self, n, env):
        self.push()
        self.active.append("textfilter")
        try:
            self.w(n["s"])
        finally:
            self.active.pop()
            text = self.pop()
        self.active.append("textfilter")
        try:
            self.callout(n["i"])
        finally:
            self.active.pop()
        self.w("{" + text + "}")

    def n_callerbody(self, n, env):
        body, benv = env["caller"]
        self.active.append("caller-body")
        try:
            self.run_nodes(body, benv)
        finally:
            self.active.pop()
        # ${caller.body()} : body writes in place and returns ''

    def n_block(self, n, env):
        self.run_block(n, env)

    def run_block(self, n, env):
        # a block is a def called in place; its own activation (no caller, own loop stack)
        benv = {"tmpl": env["tmpl"], "defs": env["defs"], "caller": None, "loops": []}
        kind = "block-filtered" if n.get("f") else "block"
        if n.get("f"):
            self.push()
            self.active.append(kind)
            try:
                self.run_nodes(n["body"], benv)
            finally:
                self.active.pop()
                text = self.pop()
            self.active.append(kind)
            try:
                self.callout(n["f"])
            finally:
                self.active.pop()
            self.w("{" + text + "}")
        else:
            self.active.append(kind)
            try:
                self.run_nodes(n["body"], benv)
            finally:
                self.active.pop()

    def n_include(self, n, env):
        inc = self.prog["incs"][n["k"]]
        self.active.append("include")
        try:
            self.callout(inc["lookup"])  # the lookup of the included template
            ienv = {"tmpl": "inc%d" % n["k"], "defs": {d["name"]: d for d in inc["defs"]}, "caller": None, "loops": []}
            depth = len(self.bufs)
            try:
                self.run_nodes(inc["body"], ienv)
            except ModelBoom:
                if not self.include_handler:
                    raise
                assert len(self.bufs) == depth
                self.handled_by = "include_error_handler"
        finally:
            self.active.pop()

    def lib_env(self):
        return {"tmpl": "lib", "defs": {d["name"]: d for d in self.prog.get("lib", ())}, "caller": None, "loops": []}

    def n_call(self, n, env):
        if n.get("via") == "ns":
            env = self.lib_env()  # a def of another template, reached through a namespace
            self.ns_calls += 1
        d = env["defs"][n["d"]]
        arg = None
        if n.get("arg") is not None:
            self.callout(n["arg"])
            arg = "p%d" % n["arg"]
        if n.get("via") == "capture":
            self.push()
            self.active.append("capture")
            try:
                self.call_def(d, env, arg, None)
            finally:
                self.active.pop()
                text = self.pop()
            self.w(text)
        else:
            r = self.call_def(d, env, arg, None)
            self.w(r)

    def n_ccall(self, n, env):
        cenv = self.lib_env() if n.get("ns") else env
        if n.get("ns"):
            self.ns_calls += 1
        d = cenv["defs"][n["d"]]
        self.active.append("ccall")
        try:
            r = self.call_def(d, cenv, None, (n["body"], env))
        finally:
            self.active.pop()
        self.w(r)

    # ------------------------------------------------------------------ defs
    def call_def(self, d, env, arg, caller):
        """Returns the text the call expression evaluates to ('' when the def wrote in place)."""
        if d.get("decorator") is not None:
            self.callout(d["decorator"])
        scope = dict(env["defs"])
        for nd in d.get("nested", ()):
            scope[nd["name"]] = nd
        denv = {"tmpl": env["tmpl"], "defs": scope, "caller": caller, "loops": []}

        def body():
            if d.get("undef") and self.undef:
                # strict_undefined: the name lookup in the def's prologue fails -- after the def's frame and
                # buffer exist, before anything is written
                self.raised_in = self.active[-1]
                raise ModelBoom("undef", 1, self.active[-1])
            if d.get("arg"):
                self.w("(" + (arg or "") + ")")
            if d.get("undef"):
                self.w("ZZ")
            self.run_nodes(d["body"], denv)

        if d.get("cached"):
            key = (env["tmpl"], d["name"])
            if key in self.cache:
                text = self.cache[key]
            else:
                self.push()
                self.active.append("def-cached")
                try:
                    body()
                finally:
                    self.active.pop()
                    text = self.pop()
                if d.get("filter") is not None:
                    self.active.append("def-cached")
                    try:
                        self.callout(d["filter"])
                    finally:
                        self.active.pop()
                    text = "{" + text + "}"
                self.cache[key] = text
            if d.get("buffered"):
                return text
            self.w(text)
            return ""
        if d.get("buffered"):
            self.push()
            self.active.append("def-buffered")
            try:
                body()
            finally:
                self.active.pop()
                text = self.pop()
            if d.get("filter") is not None:
                self.active.append("def-buffered")
                try:
                    self.callout(d["filter"])
                finally:
                    self.active.pop()
                text = "{" + text + "}"
            return text
        if d.get("filter") is not None:
            self.push()
            self.active.append("def-filtered")
            try:
                body()
            finally:
                self.active.pop()
                text = self.pop()
            self.active.append("def-filtered")
            try:
                self.callout(d["filter"])
            finally:
                self.active.pop()
            self.w("{" + text + "}")
            return ""
        self.active.append("def-nested" if d.get("is_nested") else "def")
        try:
            body()
        finally:
            self.active.pop()
        return ""
