ENGINES = [
 {"name": "vsim", "path": "vsim/", "serves_properties": ["C08", "C13", "C14", "C15", "C16", "C17"],
  "kind_free_text": "deterministic simulator written for this task: seeded PRNG per run, simulated wall/monotonic clock, real tmpfs "
                    "file system behind seams that count, fail, tear and crash every call, fork-per-run driver with watchdogs, "
                    "delta-debugging shrinker, replay files; engines/ hold one workload+oracle per property, models/ the reference models"},
]
NOTES = ("Technique studied: deterministic simulation with fault injection only. Fourteen properties are pure functions of their "
         "input and are listed under not_applicable with the reason (DESIGN.md section 0). Known findings: known_findings.json.")

def fill(check, pending):
    check("C14", "exploration",
          "Seeded search over lookup histories on a simulated clock and file system: every get_template call of every run "
          "(tens of thousands of runs per quick check, hundreds of thousands thorough) is compared with a reference model that "
          "states the property as sets of admissible outcomes (freshness by recorded mtime vs compile stamp, object identity, "
          "directory priority, documented exceptions, recovery after failed loads, LRU bound and order; files may be symbolic links "
          "that are re-pointed or whose targets are edited in place), with I/O and clock "
          "faults injected inside the calls. Sampling, not proof: a clean batch is evidence only.",
          "Trusts: the seams reach every clock/file call of the lookup path; the model (models/lookup_model.py); tmpfs gives POSIX "
          "semantics; PYTHONHASHSEED pinned to 0. Sub-second clock phases and auto-tick go beyond the whole-second clock of the "
          "property's quantifier and form a separate run class.",
          "deterministic simulation: seeded histories + fault injection vs reference model", "DESIGN.md 3/C14")
    check("C15", "fault_enumeration",
          "Every construct runs in a forked process over a real tmpfs module directory. For the final construct of each seeded "
          "history the engine enumerates ALL crash points of the module-writing path (each seam call k x before/after/mid-write, "
          "death = os._exit inside the call), checks the module path after each death (no file | complete previous | complete new) "
          "and at every seam point - including every executed line of the module-writing functions - as an outside observer, "
          "then requires a fresh process to load and render per the staleness rules; plus failing/short/degraded system calls "
          "with the process surviving, one process constructing twice around a source change, and 2-8 processes in seeded lock step; "
          "the source path may be a symbolic link whose target is edited. "
          "Staleness rules (missing / older / magic / reuse unchanged / module_writer contract) are checked on every construct.",
          "Crash granularity = the file-system calls Mako itself makes (importlib's bytecode writes are not crash points); histories "
          "are sampled, crash points per sampled history are exhaustive; power loss (unsynced data) out of scope.",
          "deterministic simulation: crash-point enumeration + fault injection + lock-step process schedules", "DESIGN.md 3/C15")
    check("C16", "exploration",
          "2-3 real threads (plus a file-editing writer actor) on one TemplateLookup, parked and released one at a time by a "
          "seeded scheduler at every lock operation, I/O seam call, Template construction boundary and traced line (opcodes in "
          "hot functions); strategies: random walk biased to shared-state code, PCT, pre-emption bounded (<= 3), round robin, "
          "stalled thread, phased load/edit/ask-again histories, and a systematic sweep that pre-empts one thread at EVERY one of "
          "its shared-state points in turn; threads also construct module-directory Templates directly and call adjust_uri. "
          "The recorded history (invoke/return stamped with the scheduler's global step) is checked for: documented exceptions "
          "only, completely constructed results, freshness relative to the call's start, compile-once/same-object for "
          "simultaneous first requests, per-thread render output, the backend arguments of every cached-def call, LRU bound at every "
          "scheduling point, no deadlock / leaked lock / thread left waiting on a Condition.",
          "Line-level pre-emption is a subset of CPython's real schedules (no false interleavings) but not all of them; "
          "Beaker's real locks are replaced by a lock-free reference cache backend; sampling, not proof.",
          "deterministic simulation: seeded thread schedules (baton passing at intercepted points) + history check", "DESIGN.md 3/C16")
    check("C13", "fault_enumeration",
          "Generated template programs (defs plain/buffered/filtered/cached/decorated/nested/with arguments, calls by name / "
          "self. / capture(), <%call> with content, loops with loop.index witnesses, blocks, <%text filter>, includes, "
          "inheritance, % try at arbitrary ancestors). A dry render lists every dynamic call out of generated code; EVERY one "
          "(cap 80/program) is made to raise in turn, under 14 handler placements (none, error_handler accepting/declining, "
          "format_exceptions, caller of render_context, include_error_handler accepting/declining/only on the included/only on "
          "the main template, and SystemExit-like BaseException raises), plus prologue name-lookup failures and failing writes "
          "of the caller's sink, and a single def rendered through get_def(name).render() under three placements; output after the handler, Context stacks, a following write and render on the same Context, a second render of "
          "the same Template and exception identity are compared with a reference interpreter that also must match the "
          "fault-free render of every program.",
          "Programs are sampled (seeded), raise points per program are enumerated; asynchronous exceptions between bytecodes "
          "are out of scope; the reference interpreter is trusted (validated fault-free on every program).",
          "deterministic simulation: synchronous fault injection at every call-out (crash-point enumeration) vs reference interpreter",
          "DESIGN.md 3/C13")
    check("C17", "exploration",
          "Seeded histories (<= 30 ops) of render / invalidate_body / invalidate_def / invalidate_closure / invalidate(key) / "
          "cache.set+get / toggle cache_enabled / advance clock / recompile / raising body / backend error over 1-3 generated "
          "templates (page, defs with and without arguments, nested defs, named and anonymous blocks cached in arbitrary "
          "combination, static and cache_key keys, buffered/filter, cache_* arguments at three levels) sharing one backend, "
          "including URIs that differ only in punctuation. Execution witnesses (a tick counter through the context), output "
          "text and the arguments a recording backend receives are compared with a reference cache model on every render; "
          "real Beaker memory (with and without a cache directory) / file / dbm and dogpile backends run on the simulated clock; "
          "templates also inherit through two- and three-level chains whose ancestors have cached defs of their own, and are "
          "wrapped as ModuleTemplate twins; a render that raises anything but the injected failures is a violation.",
          "Sampling, not proof. Expiry exactly at stored+timeout accepted either way; dogpile's plug-in is not namespaced by "
          "template (own regions per template there) and has no set(); Beaker/dogpile run single-threaded.",
          "deterministic simulation: seeded histories on a simulated clock + fault injection vs reference cache model", "DESIGN.md 3/C17")
    check("C08", "exploration",
          "PARTIAL claim: only the axes of this property that are about process lifetimes and a source of nondeterminism are "
          "decided here -- module files written by one interpreter and re-loaded by a later one (module directory reuse, "
          "ModuleTemplate, lookup with module directory / modulename_callable), and PYTHONHASHSEED. Each run is a small "
          "multi-process history over three real interpreters with different hash seeds sharing a scratch template and module "
          "directory; every construction path x rendering path (render, render_unicode, render_context, mako-render, "
          "get_def(name).render) of 2-4 generated programs must agree, and source / code / has_def / list_defs must be the "
          "template's own. The 'all generated templates' axis is only SAMPLED through feature fragments: it is input "
          "generation, which this technique does not decide.",
          "Agreement between paths is the oracle (no reference renderer; one absolute expectation: a relative uri resolves next to "
          "the template that uses it); program space sampled; three hash seeds per run out of nine.",
          "deterministic simulation: multi-process history (kill / restart with other PYTHONHASHSEED) + differential agreement across paths",
          "DESIGN.md 3/C08")
