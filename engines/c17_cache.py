"""C17 engine: cached sections run once per key and replay their exact output.

Histories of {render, invalidate_body/def/closure/key, cache.set/get, toggle
cache_enabled, advance clock, recompile, raising body, backend error} over 1-3
generated templates sharing one backend, checked against a reference cache
model.  Backends: recording in-process stub (with and without pass_context),
Beaker memory / file / dbm on the scratch tmpfs, dogpile memory -- all reading
the simulated clock."""

import os
import re
import sys

from vsim import seams, simcache
from vsim.core import EventLog, SimClock, stable_hash
from vsim.fs import World

NAME = "c17_cache"
PROPERTY = "C17"
SHRINK_LISTS = ()

RULE = ("one case = one seeded history (<= 30 ops) of {render with a unique context, invalidate_body, invalidate_def, "
        "invalidate_closure, invalidate(key), cache.set/get, toggle cache_enabled, advance clock, recompile, body raising at its "
        "n-th tick, backend error} over 1-3 generated templates (page / top-level defs with and without arguments / nested defs / "
        "named and anonymous blocks cached in arbitrary combination, static keys or cache_key over arguments and context values, "
        "buffered / filter flags, cache_timeout / cache_type / cache_dir at Template, <%page> and section level) sharing one "
        "backend, with URIs that differ only in punctuation. Every render's execution witness (tick log) and text are compared "
        "with the reference cache model. Non-trivial = at least two renders of a template with a cached section and one "
        "state-changing op in between; distinct = hash of (templates, ops, backend).")
COMPONENTS = {
    "real": ["mako.codegen cache decorators", "mako.cache.Cache (_ctx_get_or_create, _get_cache_kw, invalidate_*)",
             "mako.ext.beaker_cache.BeakerCacheImpl", "Beaker memory/file/dbm containers (scratch tmpfs)",
             "dogpile.cache memory backend + its Mako plug-in"],
    "simulated": ["the clock all backends and the code generator read", "raising section bodies", "backend errors (stub backend)"],
    "stub": ["recording CacheImpl 'simrec' / 'simrecctx' (dict store honouring timeout and template start time, logs every call's arguments)"],
}
ASSUMPTIONS = (
    "Beaker/dogpile run single-threaded with their real locks",
    "expiry exactly at stored + timeout is accepted either way",
    "dogpile's plug-in does not namespace keys by template: each template gets its own regions there and the cross-template clause is not evaluated",
    "PYTHONHASHSEED pinned to 0",
)
EXPECTED_PROBES = ("replayed", "created", "expired-recreated", "invalidated-recreated", "cache-disabled-run", "dynamic-key",
                   "nested-cached-inside-cached", "recompiled", "body-raised", "backend-error", "cache-set-get",
                   "two-templates-colliding-ids", "page-cached", "args-checked", "base-template-section-created", "mid-template-section-created", "module-template-twin",
                   "beaker-without-directory")

URIS = ["/a-b.html", "/a_b.html", "/a/b.html", "/c.html"]


# ---------------------------------------------------------------- generator
def gen_section_args(rng, allow_ns):
    a = {}
    if rng.random() < 0.3:
        a["timeout"] = rng.choice((2, 3, 5))
    if allow_ns and rng.random() < 0.15:
        a["type"] = rng.choice(("memory", "file", "dbm"))
    return a


def gen_template(rng, uri, k):
    t = {"uri": uri, "targs": {}, "page": None, "defs": [], "blocks": [], "enabled": True}
    if rng.random() < 0.3:
        t["targs"]["timeout"] = rng.choice((4, 6))
    if rng.random() < 0.35:
        t["page"] = {"cached": rng.random() < 0.6, "key": "ctx" if rng.random() < 0.35 else None,
                     "args": gen_section_args(rng, False)}
    nd = rng.randint(1, 3)
    for j in range(nd):
        d = {"name": "d%d" % (j + 1), "cached": rng.random() < 0.7, "key": None, "arg": rng.random() < 0.5, "argdefault": rng.random() < 0.5,
             "buffered": rng.random() < 0.25, "filter": rng.random() < 0.2, "args": {}, "nested": [], "calls": rng.choice((1, 1, 2))}
        if d["cached"]:
            r = rng.random()
            if d["arg"] and r < 0.6:
                d["key"] = "arg"
            elif r < 0.25:
                d["key"] = "ctx"
            elif r < 0.40 and not any(e.get("key") == "int" for e in t["defs"]):
                d["key"] = "int"  # a non-string key: the integer n from the context
            d["args"] = gen_section_args(rng, d["key"] is None)
            if d["key"] == "int":
                d["args"].pop("type", None)
        if rng.random() < 0.35:
            n = {"name": d["name"] + "n", "cached": rng.random() < 0.7, "key": None, "buffered": rng.random() < 0.3,
                 "filter": False, "args": {}, "arg": False}
            if n["cached"]:
                n["args"] = gen_section_args(rng, True)
            d["nested"].append(n)
        t["defs"].append(d)
    for j in range(rng.choice((0, 0, 1, 2))):
        named = rng.random() < 0.6
        b = {"name": ("b%d" % (j + 1)) if named else None, "cached": rng.random() < 0.75, "filter": rng.random() < 0.2, "args": {}}
        if b["cached"]:
            b["args"] = gen_section_args(rng, True)
        t["blocks"].append(b)
    return t


def generate(rng, tier, idx, force=None):
    backend = rng.choice(("simrec", "simrec", "simrecctx", "beaker-memory", "beaker-memory", "beaker-file", "beaker-dbm", "dogpile"))
    nt = rng.choice((1, 1, 2, 2, 3))
    uris = list(URIS)
    if rng.random() < 0.6:
        # URIs that differ only in punctuation first
        uris = URIS[:3]
        rng.shuffle(uris)
        uris.append("/c.html")
    else:
        rng.shuffle(uris)
    tmpls = [gen_template(rng, uris[i], i) for i in range(nt)]
    twins = False
    if nt >= 2 and backend in ("simrec", "simrecctx", "beaker-memory") and rng.random() < 0.15:
        # two "sites": the same template text and uri, generated into two differently named modules and
        # wrapped as ModuleTemplate -- different templates, so they must not see each other's entries
        import copy as _copy

        tmpls[1] = _copy.deepcopy(tmpls[0])
        tmpls[0]["modname"] = "siteA_tmpl"
        tmpls[1]["modname"] = "siteB_tmpl"
        twins = True
    base = None
    if backend != "dogpile" and not twins and rng.random() < 0.35:
        # a base template with a cached def; some templates inherit from it: its entry lives in the BASE
        # template's cache and is shared by all children
        # ... optionally through a middle template with a cached def of the SAME name: three caches in one render
        base = {"timeout": rng.choice((None, None, 3)), "mid": rng.random() < 0.4}
        for t in tmpls:
            t["inherit"] = rng.random() < 0.7
            if t["inherit"] and base["mid"]:
                t["inherit"] = "mid"
    if backend == "beaker-dbm":
        # dbm containers accept only str/bytes keys (Beaker's limitation): no integer cache_key there
        for t in tmpls:
            for d in t["defs"]:
                if d.get("key") == "int":
                    d["key"] = None
    if backend == "dogpile" or backend.startswith("sim"):
        for t in tmpls:
            for sec in all_sections(t):
                sec["args"].pop("type", None)
    ops = []
    nops = rng.randint(4, 30 if tier == "thorough" else 22)
    xn = 0
    for _ in range(nops):
        r = rng.random()
        ti = rng.randrange(nt)
        t = tmpls[ti]
        if r < 0.50:
            xn += 1
            ops.append(["render", ti, "x%d" % xn, rng.choice(("k1", "k2")), rng.choice(("p1", "p2"))])
        elif r < 0.56:
            ops.append(["invalidate_body", ti])
        elif r < 0.64:
            ops.append(["invalidate_def", ti, rng.choice(t["defs"])["name"]])
        elif r < 0.69:
            nested = [n["name"] for d in t["defs"] for n in d["nested"]]
            anon = []
            if nested:
                ops.append(["invalidate_closure", ti, rng.choice(nested)])
        elif r < 0.74:
            dn = rng.choice(t["defs"])["name"]
            ops.append(["invalidate_key", ti, rng.choice(("K%s_k1" % dn, "K%s_k2" % dn, "C%s_k1" % dn, "C%s_k2" % dn, "p1", "p2", 1, 2, 1, 2))])
        elif r < 0.78:
            if backend != "dogpile":  # dogpile's own Mako plug-in has no set(): third-party code, not evaluated
                ops.append(["setget", ti, rng.choice(("user1", "user2")), "v%d" % rng.randint(1, 99)])
        elif r < 0.82:
            ops.append(["toggle", ti])
        elif r < 0.92:
            ops.append(["advance", rng.choice((0.7, 1.3, 2.9, 4.1, 11.3))])
        elif r < 0.96:
            ops.append(["recompile", ti])
        elif r < 0.98:
            xn += 1
            ops.append(["render_raise", ti, "x%d" % xn, rng.choice(("k1", "k2")), rng.choice(("p1", "p2")), rng.randint(1, 4)])
        elif backend.startswith("sim"):
            xn += 1
            ops.append(["render_backend_error", ti, "x%d" % xn, rng.choice(("k1", "k2")), rng.choice(("p1", "p2")), rng.randint(1, 3)])
    # bias: the history [invalidate before the first render] and early recompiles are interesting
    if rng.random() < 0.25:
        t0 = tmpls[0]
        ops.insert(0, ["invalidate_def", 0, rng.choice(t0["defs"])["name"]])
    # Beaker file/dbm: every template with its own cache directory (and one shared module_directory): then even
    # templates whose module ids collide must not see each other's entries
    separate = backend in ("beaker-file", "beaker-dbm") and base is None and rng.random() < 0.5
    if separate:
        for t in tmpls:
            for sec in all_sections(t):
                sec["args"].pop("type", None)  # a section-level 'memory' type would ignore the directory again
    # Beaker memory without any cache directory: legal (nothing is written), and the only configuration in which the
    # plug-in looks at the template's own module_directory
    nodir = backend == "beaker-memory" and rng.random() < 0.35
    if nodir:
        for t in tmpls:
            t["targs"].pop("type", None)
            if t.get("page"):
                t["page"]["args"].pop("type", None)
            for sec in all_sections(t):
                sec["args"].pop("type", None)
    # an argument only the reference backends accept, overridden by falsy values ("" beats "T": an override is an
    # override whatever its truth value)
    if backend.startswith("sim") and rng.random() < 0.4:
        for t in tmpls:
            if rng.random() < 0.7:
                t["targs"]["flag"] = "T"
            if t["page"] and rng.random() < 0.5:
                t["page"]["args"]["flag"] = rng.choice(("", "P"))
            for sec in all_sections(t):
                if rng.random() < 0.5:
                    sec["args"]["flag"] = rng.choice(("", "", "S"))
    return {"engine": NAME, "property": PROPERTY, "backend": backend, "tmpls": tmpls, "ops": ops, "faults": [], "base": base,
            "separate_dirs": separate, "nodir": nodir}


def all_sections(t):
    out = []
    if t["page"] and t["page"]["cached"]:
        out.append(t["page"])
    for d in t["defs"]:
        out.append(d)
        out.extend(d["nested"])
    out.extend(t["blocks"])
    return out


def trace_size(trace):
    n = len(trace["ops"]) * 3
    for t in trace["tmpls"]:
        n += 2 + len(t["defs"]) * 2 + sum(len(d["nested"]) for d in t["defs"]) + len(t["blocks"])
    return n


def simplifications(trace):
    import copy

    if len(trace["tmpls"]) > 1:
        for drop in range(len(trace["tmpls"]) - 1, -1, -1):
            c = copy.deepcopy(trace)
            del c["tmpls"][drop]
            ops = []
            for op in c["ops"]:
                if len(op) > 1 and isinstance(op[1], int) and op[0] != "advance":
                    if op[1] == drop:
                        continue
                    if op[1] > drop:
                        op = [op[0], op[1] - 1] + op[2:]
                ops.append(op)
            c["ops"] = ops
            yield c
    for ti, t in enumerate(trace["tmpls"]):
        for di in range(len(t["defs"])):
            if len(t["defs"]) > 1:
                c = copy.deepcopy(trace)
                name = c["tmpls"][ti]["defs"][di]["name"]
                del c["tmpls"][ti]["defs"][di]
                c["ops"] = [op for op in c["ops"] if not (op[0] in ("invalidate_def", "invalidate_closure") and op[1] == ti and op[2].startswith(name))]
                yield c
            if t["defs"][di]["nested"]:
                c = copy.deepcopy(trace)
                name = c["tmpls"][ti]["defs"][di]["nested"][0]["name"]
                c["tmpls"][ti]["defs"][di]["nested"] = []
                c["ops"] = [op for op in c["ops"] if not (op[0] == "invalidate_closure" and op[1] == ti and op[2] == name)]
                yield c
        for bi in range(len(t["blocks"])):
            c = copy.deepcopy(trace)
            del c["tmpls"][ti]["blocks"][bi]
            yield c
        if t["page"]:
            c = copy.deepcopy(trace)
            c["tmpls"][ti]["page"] = None
            yield c
    if trace["backend"] != "simrec":
        c = copy.deepcopy(trace)
        c["backend"] = "simrec"
        c["separate_dirs"] = False
        c["nodir"] = False
        for t in c["tmpls"]:
            for sec in all_sections(t):
                sec["args"].pop("type", None)
        yield c


# ---------------------------------------------------------------- emission
def attr_args(args, with_dir=None):
    s = ""
    for k in sorted(args):
        s += ' cache_%s="%s"' % (k, args[k])
    return s


BASE_URI = "/base.html"


def emit_base(base):
    to = (' cache_timeout="%d"' % base["timeout"]) if base.get("timeout") else ""
    return '<%%def name="bd()" cached="True"%s>BD(${tick(\'bd\')}${x})</%%def>BASE[${bd()}|${next.body()}]' % to


MID_URI = "/mid.html"


def emit_mid():
    return ('<%%inherit file="%s"/><%%def name="bd()" cached="True">MD(${tick(\'md\')}${x})</%%def>MID{${bd()}|${next.body()}}' % BASE_URI)


def emit_template(t, scratch, backend):
    out = ""
    if t.get("inherit"):
        out += '<%%inherit file="%s"/>' % (MID_URI if t.get("inherit") == "mid" else BASE_URI)
    if t["page"]:
        p = t["page"]
        out += "<%page"
        if p["cached"]:
            out += ' cached="True"'
            if p["key"] == "ctx":
                out += ' cache_key="${pk}"'
        out += attr_args(p["args"]) + "/>"
    for d in t["defs"]:
        a = 'name="%s(%s)"' % (d["name"], ("a='dflt'" if d.get("argdefault") else "a") if d["arg"] else "")
        if d["cached"]:
            a += ' cached="True"'
            if d["key"] == "arg":
                a += ' cache_key="K%s_${a}"' % d["name"]
            elif d["key"] == "ctx":
                a += ' cache_key="C%s_${k}"' % d["name"]
            elif d["key"] == "int":
                a += ' cache_key="${n}"'
            a += attr_args(d["args"])
        if d["buffered"]:
            a += ' buffered="True"'
        if d["filter"]:
            a += ' filter="f"'
        body = "D%s(${tick('%s')}${x}%s" % (d["name"], d["name"], "${a}" if d["arg"] else "")
        for n in d["nested"]:
            na = 'name="%s()"' % n["name"]
            if n["cached"]:
                na += ' cached="True"' + attr_args(n["args"])
            if n["buffered"]:
                na += ' buffered="True"'
            body += "<%%def %s>N%s(${tick('%s')}${x})</%%def>${%s()}" % (na, n["name"], n["name"], n["name"])
        body += ")"
        out += "<%%def %s>%s</%%def>" % (a, body)
    out += "P(${tick('page')}${x}"
    for d in t["defs"]:
        for _ in range(d["calls"]):
            out += "${%s(%s)}" % (d["name"], "k" if d["arg"] else "")
    for bi, b in enumerate(t["blocks"]):
        a = ""
        if b["name"]:
            a += ' name="%s"' % b["name"]
        if b["cached"]:
            a += ' cached="True"' + attr_args(b["args"])
        if b["filter"]:
            a += ' filter="f"'
        nm = b["name"] or ("anon%d" % bi)
        # anonymous blocks take their internal name from the line number: one per line
        out += "\\\n<%%block%s>B%s(${tick('%s')}${x})</%%block>" % (a, nm, nm)
    out += ")"
    return out


# ------------------------------------------------------------------ model
class Entry:
    __slots__ = ("text", "stored", "timeout")

    def __init__(self, text, stored, timeout):
        self.text = text
        self.stored = stored
        self.timeout = timeout


class Boom(Exception):
    pass


class CacheModel:
    """(template uri, key) -> Entry.  States the property: a section's body runs iff there is no
    valid entry for its key; then its output is stored and replayed until invalidated/expired."""

    def __init__(self, backend):
        self.backend = backend
        self.store = {}
        self.start = {}  # ti -> template start time (compile stamp)
        self.last_invalidate = set()

    def valid(self, ti, key, now):
        e = self.store.get((ti, key))
        if e is None:
            return None, False
        edge = False
        if e.timeout is not None:
            if abs(now - (e.stored + e.timeout)) < 1e-6:
                edge = True
            elif now > e.stored + e.timeout:
                return None, False
        if self.backend != "dogpile" and e.stored < self.start[ti] - 1e-9:
            return None, False
        return e, edge


def effective_args(t, sec):
    a = dict(t["targs"])
    if t["page"]:
        a.update(t["page"]["args"])
    a.update(sec["args"])
    return a


# ---------------------------------------------------------------- harness
class Harness:
    def __init__(self, trace, root):
        import mako.template

        self.trace = trace
        self.backend = trace["backend"]
        self.root = root
        self.clock = SimClock(start=1_000_000_000.25)
        self.log = EventLog()
        self.world = World(root, self.clock, self.log)
        self.world.enabled = False
        sys.dont_write_bytecode = True
        seams.install(self.world, self.clock, patch_cache_clocks=True)
        simcache.register()
        simcache.reset()
        simcache.CLOCK[0] = self.clock
        self.viol = []
        self.probes = {}
        self.faults = {}
        self.model = CacheModel(self.backend)
        self.tmpls = trace["tmpls"]
        self.objs = {}
        self.enabled = {}
        self.ticks = []
        self.tickno = 0
        self.raise_at = None
        self.state_hashes = set()
        self.used = {}   # ti -> this template object has rendered since it was compiled
        self.early = set()  # templates that saw an invalidate_* before their first render since compile
        self.cache_dir = os.path.join(root, "cache")
        os.makedirs(self.cache_dir)
        self.regions = {}
        self.base = trace.get("base")
        self.lk = None
        self.B = len(self.tmpls)  # model index of the base template
        self.M = self.B + 1  # ... and of the middle template of a three-level chain
        if self.base:
            import mako.lookup

            kw0 = self.template_kwargs(None)
            self.lk = mako.lookup.TemplateLookup(**kw0)
            self.lk.put_string(BASE_URI, emit_base(self.base))
            self.base_obj = self.lk.get_template(BASE_URI)
            self.model.start[self.B] = self.base_obj.last_modified
            if self.base.get("mid"):
                self.lk.put_string(MID_URI, emit_mid())
                self.mid_obj = self.lk.get_template(MID_URI)
                self.model.start[self.M] = self.mid_obj.last_modified
        ids = {}
        for ti, t in enumerate(self.tmpls):
            self.compile(ti)
            mid = t.get("modname") or re.sub(r"\W", "_", t["uri"])  # the cache id is the module name
            ids.setdefault(mid, []).append(ti)
        self.colliding = {ti: [o for o in grp if o != ti] for grp in ids.values() for ti in grp if len(grp) > 1}
        if trace.get("separate_dirs") and self.backend in ("beaker-file", "beaker-dbm"):
            self.colliding = {}  # separate backend directories: nothing may be shared, judge at full strength
            self.probe("separate-cache-dirs")
        if self.colliding:
            self.probe("two-templates-colliding-ids")

    def probe(self, name, n=1):
        self.probes[name] = self.probes.get(name, 0) + n

    def flag(self, cls, msg, detail=None):
        self.viol.append(("C17/" + cls + ((":" + detail) if detail else ""), msg))

    # ---- templates
    def template_kwargs(self, ti):
        t = self.tmpls[ti] if ti is not None else {"targs": {}}
        cache_args = dict(t["targs"])
        b = self.backend
        kw = {}
        if b in ("simrec", "simrecctx"):
            kw["cache_impl"] = b
        elif b.startswith("beaker"):
            kw["cache_impl"] = "beaker"
            cache_args.setdefault("type", b.split("-")[1])
            if self.trace.get("nodir") and b == "beaker-memory":
                self.probe("beaker-without-directory")
            else:
                cache_args["dir"] = self.cache_dir
            if self.trace.get("separate_dirs") and ti is not None and b in ("beaker-file", "beaker-dbm"):
                cache_args["dir"] = os.path.join(self.cache_dir, "t%d" % ti)
                os.makedirs(cache_args["dir"], exist_ok=True)
                kw["module_directory"] = os.path.join(self.root, "shared_moddir")
        else:
            from dogpile.cache import make_region

            kw["cache_impl"] = "dogpile.cache"
            reg = self.regions.get(ti)
            if reg is None:
                reg = self.regions[ti] = {"r1": make_region().configure("dogpile.cache.memory")}
            cache_args["regions"] = reg
            cache_args["region"] = "r1"
        kw["cache_args"] = cache_args
        kw["cache_enabled"] = self.enabled.get(ti, True)
        if ti is not None and self.lk is not None:
            kw["lookup"] = self.lk
        return kw

    def compile(self, ti):
        import mako.template

        t = self.tmpls[ti]
        text = emit_template(t, self.root, self.backend)
        if t.get("modname"):
            import types

            kw = self.template_kwargs(ti)
            kw.pop("lookup", None)
            code = mako.template.Template(text, uri=t["uri"]).code
            mod = types.ModuleType(t["modname"])
            exec(compile(code, t["modname"], "exec"), mod.__dict__)
            obj = mako.template.ModuleTemplate(mod, template_source=text, module_source=code, **kw)
            self.probe("module-template-twin")
        else:
            obj = mako.template.Template(text, uri=t["uri"], **self.template_kwargs(ti))
        self.objs[ti] = obj
        self.used[ti] = False
        self.early.discard(ti)
        self.model.start[ti] = obj.last_modified
        self.log.add("compile", ti, t["uri"], round(obj.last_modified, 3))

    # ---- context functions
    def tick(self, name):
        self.tickno += 1
        if self.raise_at is not None:
            self.raise_at -= 1
            if self.raise_at == 0:
                self.raise_at = None
                raise Boom("body of %s raised" % name)
        self.ticks.append(name)
        return "#%d" % self.tickno

    # ---- the model's render
    def model_render(self, ti, x, k, pk, raise_at, commit):
        """Predict tick list and text.  Returns (ticks, text or None if raised, pending store updates, edges)"""
        t = self.tmpls[ti]
        now = self.clock.now
        m = self.model
        enabled = self.enabled.get(ti, True)
        ticks = []
        updates = {}
        edges = [False]
        counter = [self.tickno]
        budget = [raise_at]
        f = lambda s: "<" + s + ">"

        def do_tick(name):
            counter[0] += 1
            if budget[0] is not None:
                budget[0] -= 1
                if budget[0] == 0:
                    budget[0] = None
                    raise Boom(name)
            ticks.append(name)
            return "#%d" % counter[0]

        depth = [0]

        def section(sec, key, body_fn, filt):
            """run a (possibly cached) section; returns its text"""
            if sec is not None and sec["cached"] and not enabled:
                self.probe("cache-disabled-run")
            if sec is not None and sec["cached"] and enabled:
                ent = updates.get((ti, key))
                edge = False
                if ent is None:
                    ent, edge = m.valid(ti, key, now)
                if edge:
                    edges[0] = True
                if ent is not None:
                    self.probe("replayed")
                    return ent.text
                if sec.get("key") in ("arg", "ctx"):
                    self.probe("dynamic-key")
                if (ti, key) in m.store:
                    self.probe("expired-recreated")
                if (ti, key) in m.last_invalidate:
                    self.probe("invalidated-recreated")
                if depth[0]:
                    self.probe("nested-cached-inside-cached")
                depth[0] += 1
                try:
                    text = body_fn()
                finally:
                    depth[0] -= 1
                if filt:
                    text = f(text)
                to = effective_args(t, sec).get("timeout")
                updates[(ti, key)] = Entry(text, now, to)
                return text
            text = body_fn()
            if filt:
                text = f(text)
            return text

        def nested_fn(n):
            return lambda: "N%s(%s%s)" % (n["name"], do_tick(n["name"]), x)

        def def_text(d):
            def body():
                s = "D%s(%s%s%s" % (d["name"], do_tick(d["name"]), x, k if d["arg"] else "")
                for n in d["nested"]:
                    s += section(n, n["name"], nested_fn(n), False)
                return s + ")"

            key = "render_" + d["name"]
            if d["key"] == "arg":
                key = "K%s_%s" % (d["name"], k)
            elif d["key"] == "ctx":
                key = "C%s_%s" % (d["name"], k)
            elif d["key"] == "int":
                key = int(k[1:])
            return section(d, key, body, d["filter"])

        def page_body():
            s = "P(%s%s" % (do_tick("page"), x)
            for d in t["defs"]:
                for _ in range(d["calls"]):
                    s += def_text(d)
            for bi, b in enumerate(t["blocks"]):
                nm = b["name"] or ("anon%d" % bi)
                key = ("render_" + b["name"]) if b["name"] else None
                if key is None:
                    key = self.anon_key(ti, bi)
                s += section(b, key, (lambda nm=nm: "B%s(%s%s)" % (nm, do_tick(nm), x)), b["filter"])
            return s + ")"

        page = t["page"] if (t["page"] and t["page"]["cached"]) else None
        try:
            pkey = pk if (page and page["key"] == "ctx") else "render_body"
            if self.base and t.get("inherit"):
                # the base template's body runs first; its cached def belongs to the BASE template's cache
                B = self.B
                bkey = (B, "render_bd")
                ent = updates.get(bkey)
                edge = False
                if ent is None:
                    ent, edge = m.valid(B, "render_bd", now)
                if edge:
                    edges[0] = True
                if ent is not None:
                    self.probe("replayed")
                    bd = ent.text
                else:
                    bd = "BD(%s%s)" % (do_tick("bd"), x)
                    updates[bkey] = Entry(bd, now, self.base.get("timeout"))
                    self.probe("base-template-section-created")
                text = "BASE[" + bd + "|"
                if t.get("inherit") == "mid":
                    # the middle template's def has the same name and so the same key -- in its OWN cache
                    mkey = (self.M, "render_bd")
                    ent = updates.get(mkey)
                    if ent is None:
                        ent, edge = m.valid(self.M, "render_bd", now)
                        if edge:
                            edges[0] = True
                    if ent is not None:
                        self.probe("replayed")
                        md = ent.text
                    else:
                        md = "MD(%s%s)" % (do_tick("md"), x)
                        updates[mkey] = Entry(md, now, None)
                        self.probe("mid-template-section-created")
                    text += "MID{" + md + "|" + section(page, pkey, page_body, False) + "}"
                else:
                    text += section(page, pkey, page_body, False)
                text += "]"
            else:
                text = section(page, pkey, page_body, False)
        except Boom:
            text = None
            # entries created by sections that completed before the raise stay; the abandoned ones store nothing
        return ticks, text, updates, edges[0]

    def anon_key(self, ti, bi):
        # internal name of an anonymous block: __M_anon_<line>; blocks are emitted one per line after line 1
        return "__M_anon_%d" % (2 + bi)

    # ---- operations
    def do(self, j, op):
        name = op[0]
        self.log.add("op", j, *op)
        if name == "advance":
            self.clock.advance(op[1])
            return
        ti = op[1]
        t = self.tmpls[ti]
        obj = self.objs[ti]
        if name in ("render", "render_raise", "render_backend_error"):
            self.do_render(j, op)
        elif name == "toggle":
            self.enabled[ti] = not self.enabled.get(ti, True)
            obj.cache_enabled = self.enabled[ti]
        elif name == "recompile":
            self.clock.advance(0.01)
            self.compile(ti)
            self.probe("recompiled")
        elif name.startswith("invalidate") and not self.used.get(ti):
            self.early.add(ti)
        if name == "invalidate_body":
            self.api(obj.cache.invalidate_body)
            self.model_invalidate(ti, "render_body")
        elif name == "invalidate_def":
            self.api(obj.cache.invalidate_def, op[2])
            self.model_invalidate(ti, "render_" + op[2])
        elif name == "invalidate_closure":
            self.api(obj.cache.invalidate_closure, op[2])
            self.model_invalidate(ti, op[2])
        elif name == "invalidate_key":
            self.api(obj.cache.invalidate, op[2])
            self.model_invalidate(ti, op[2])
        elif name == "setget":
            key, val = op[2], op[3]
            try:
                obj.cache.set(key, val)
                got = obj.cache.get(key)
            except Exception as e:
                self.flag("cache-set-get", "template.cache.set(%r, ...)/get with backend %s raised %s: %s"
                          % (key, self.backend, type(e).__name__, str(e)[:80]), type(e).__name__)
                return
            self.probe("cache-set-get")
            if got != val:
                self.flag("cache-set-get", "template.cache.get(%r) returned %r after set(%r)" % (key, got, val))

    def api(self, fn, *a):
        try:
            fn(*a)
        except Exception as e:
            self.flag("invalidate-raised", "%s(%s) raised %s: %s" % (fn.__name__, ", ".join(map(repr, a)), type(e).__name__, str(e)[:100]),
                      type(e).__name__)

    def model_invalidate(self, ti, key):
        if (ti, key) in self.model.store:
            del self.model.store[(ti, key)]
            self.model.last_invalidate.add((ti, key))

    def do_render(self, j, op):
        name, ti, x, k, pk = op[:5]
        t = self.tmpls[ti]
        obj = self.objs[ti]
        raise_at = op[5] if name == "render_raise" else None
        self.cur_x = x
        mt, mtext, updates, edge = self.model_render(ti, x, k, pk, raise_at, True)
        self.ticks = []
        self.raise_at = raise_at
        tick0 = self.tickno
        log0 = len(simcache.LOG)
        if name == "render_backend_error":
            simcache.FAIL["get_or_create"] = op[5]
        err = None
        try:
            text = obj.render(x=x, k=k, pk=pk, n=int(k[1:]), tick=self.tick, f=lambda s: "<" + s + ">")
        except Boom as e:
            text = None
            err = e
            self.probe("body-raised")
            self.faults["raise@probe"] = self.faults.get("raise@probe", 0) + 1
        except simcache.BackendError as e:
            self.faults["backend-error"] = self.faults.get("backend-error", 0) + 1
            self.probe("backend-error")
            simcache.FAIL["get_or_create"] = 0
            self.raise_at = None
            # nothing may have been stored by the failing call; sections that completed before it stay.
            # The model cannot know which call failed without mirroring call order; re-derive from the tick log:
            self.resync_after_backend_error(ti, x, k, pk)
            return
        except Exception as e:
            # neither the body's own raise nor an injected backend failure: the render itself broke
            kind = "ModuleTemplate" if t.get("modname") else "Template"
            self.log.add("render-raised", ti, x, type(e).__name__)
            self.flag("render-raised", "render of %s (%s, backend %s%s) raised %s: %s -- an uncached render of the same "
                      "template succeeds" % (t["uri"], kind, self.backend, ", no cache directory" if self.trace.get("nodir") else "",
                                             type(e).__name__, e), type(e).__name__ + ":" + kind)
            self.abort = True
            return
        finally:
            simcache.FAIL["get_or_create"] = 0
            self.raise_at = None
        self.used[ti] = True
        self.tickno = tick0 + len(self.ticks) + (1 if err is not None else 0)
        got_ticks = list(self.ticks)
        self.log.add("render", ti, x, k, pk, text, got_ticks)
        label = "render of %s (x=%s, k=%s, pk=%s)" % (t["uri"], x, k, pk)
        if edge:
            # a timeout expiring exactly now: either outcome; adopt what happened
            self.adopt(ti)
            return
        ok = True
        if ti in self.colliding and (got_ticks != mt or text != mtext):
            # templates whose URIs differ only in non-word characters share one cache id: whatever differs from
            # the per-template model here is an entry (or an invalidation) of the other template
            other = self.tmpls[self.colliding[ti][0]]["uri"]
            self.flag("cross-template", "%s: executed %s and returned %r; per-template caches give %s / %r -- entries are shared with %s "
                      "(same module id %r)" % (label, got_ticks, text, mt, mtext, other, re.sub(r"\W", "_", t["uri"])), "module-id-collision")
            self.adopt(ti)
            return
        if got_ticks != mt:
            ok = False
            extra = [s for s in got_ticks if s not in mt or got_ticks.count(s) > mt.count(s)]
            missing = [s for s in mt if s not in got_ticks or mt.count(s) > got_ticks.count(s)]
            if extra:
                s = extra[0]
                self.flag("ran-with-valid-entry", "%s: body of section %r was executed although the backend held a valid entry for its key "
                          "(cache_enabled=%s); executed %s, expected %s" % (label, s, self.enabled.get(ti, True), got_ticks, mt))
            if missing:
                s = missing[0]
                keys = self.keys_of(ti, s, k, pk)
                if any((ti, kk) in self.model.last_invalidate for kk in keys):
                    self.flag("not-run-after-invalidate", "%s: section %r was replayed from the cache although its key was invalidated; executed %s, expected %s"
                              % (label, s, got_ticks, mt))
                elif not self.enabled.get(ti, True):
                    self.flag("ran-with-valid-entry", "%s: cache_enabled=False but section %r was not executed; executed %s, expected %s"
                              % (label, s, got_ticks, mt), "cache-disabled")
                elif ti in self.colliding:
                    other = self.tmpls[self.colliding[ti][0]]["uri"]
                    self.flag("cross-template", "%s: section %r was served from the cache although this template has no entry for it; %s "
                              "(same module id) has; executed %s, expected %s" % (label, s, other, got_ticks, mt), "module-id-collision")
                else:
                    self.flag("not-run", "%s: section %r was not executed although no valid entry exists for it; executed %s, expected %s"
                              % (label, s, got_ticks, mt), "invalidate-before-first-render" if ti in self.early else None)
        elif (text is None) != (mtext is None):
            ok = False
            self.flag("replayed-wrong-text", "%s: %s, the model %s" % (label, "raised" if text is None else "returned %r" % text,
                                                                       "raised" if mtext is None else "gives %r" % mtext),
                      "invalidate-before-first-render" if ti in self.early else None)
        elif text != mtext:
            ok = False
            if ti in self.colliding and self.text_of_other(ti, text):
                other = self.tmpls[self.colliding[ti][0]]["uri"]
                self.flag("cross-template", "%s returned %r: cached output of %s (same module id); expected %r" % (label, text, other, mtext),
                          "module-id-collision")
            else:
                self.flag("replayed-wrong-text", "%s returned %r; with the entries created so far it must be %r" % (label, text, mtext))
        if ok:
            for key, ent in updates.items():
                self.model.store[key] = ent
                self.model.last_invalidate.discard(key)
                self.probe("created")
            if t["page"] and t["page"]["cached"]:
                self.probe("page-cached")
            self.check_backend_args(ti, log0, label)
        else:
            self.adopt(ti)
        self.state_hashes.add(stable_hash(sorted((a, repr(b)) for (a, b) in self.model.store)))

    def text_of_other(self, ti, text):
        for o in self.colliding.get(ti, ()):
            for (tj, key), ent in self.model.store.items():
                if tj == o and ent.text and ent.text in text:
                    return True
        return False

    def keys_of(self, ti, secname, k, pk):
        t = self.tmpls[ti]
        if secname == "page":
            return ["render_body", pk]
        for d in t["defs"]:
            if d["name"] == secname:
                return ["render_" + secname, "K%s_%s" % (secname, k), "C%s_%s" % (secname, k), int(k[1:])]
            for n in d["nested"]:
                if n["name"] == secname:
                    return [secname]
        for bi, b in enumerate(t["blocks"]):
            nm = b["name"] or ("anon%d" % bi)
            if nm == secname:
                return ["render_" + b["name"]] if b["name"] else [self.anon_key(ti, bi)]
        return []

    def adopt(self, ti):
        """After a reported (or either-way) divergence: clear model and implementation for the templates
        involved so that the rest of the history is judged from a common state."""
        group = [ti] + list(self.colliding.get(ti, ()))
        if self.base:
            for key in [kk for kk in self.model.store if kk[0] in (self.B, self.M)]:
                del self.model.store[key]
            try:
                self.base_obj.cache.invalidate_def("bd")
                if self.base.get("mid"):
                    self.mid_obj.cache.invalidate_def("bd")
            except Exception:
                pass
        for tj in group:
            for key in [kk for kk in self.model.store if kk[0] == tj]:
                del self.model.store[key]
            obj = self.objs[tj]
            t = self.tmpls[tj]
            try:
                obj.cache.invalidate_body()
                for pk in ("p1", "p2"):
                    obj.cache.invalidate(pk)
                for d in t["defs"]:
                    obj.cache.invalidate_def(d["name"])
                    for kk in ("K%s_k1" % d["name"], "K%s_k2" % d["name"], "C%s_k1" % d["name"], "C%s_k2" % d["name"], 1, 2, "1", "2"):
                        obj.cache.invalidate(kk, __M_defname="render_" + d["name"])
                        obj.cache.invalidate(kk)
                    for n in d["nested"]:
                        obj.cache.invalidate_closure(n["name"])
                for bi, b in enumerate(t["blocks"]):
                    if b["name"]:
                        obj.cache.invalidate_def(b["name"])
                    else:
                        obj.cache.invalidate_closure(self.anon_key(tj, bi))
            except Exception:
                pass

    def resync_after_backend_error(self, ti, x, k, pk):
        self.tickno += len(self.ticks)
        self.adopt(ti)

    def check_backend_args(self, ti, log0, label):
        if not self.backend.startswith("sim"):
            return
        t = self.tmpls[ti]
        secs = {}
        if t["page"] and t["page"]["cached"]:
            secs["render_body"] = t["page"]
        for d in t["defs"]:
            secs["render_" + d["name"]] = d
            for n in d["nested"]:
                secs[n["name"]] = n
        for bi, b in enumerate(t["blocks"]):
            secs[("render_" + b["name"]) if b["name"] else self.anon_key(ti, bi)] = b
        dyn = {}
        for d in t["defs"]:
            if d["key"] == "arg":
                dyn["K%s_" % d["name"]] = d
            elif d["key"] == "ctx":
                dyn["C%s_" % d["name"]] = d
        for (what, cid, key, kw) in simcache.LOG[log0:]:
            if what != "get_or_create":
                continue
            sec = secs.get(key)
            if sec is None and isinstance(key, str) and key.rsplit("_", 1)[0] + "_" in dyn:
                sec = dyn[key.rsplit("_", 1)[0] + "_"]
            if sec is None and isinstance(key, int):
                sec = next((d for d in t["defs"] if d.get("key") == "int"), None)
            if sec is None and t["page"] and key in ("p1", "p2"):
                sec = t["page"]
            if sec is None:
                continue
            want = effective_args(t, sec)
            got = dict(kw)
            ctx = got.pop("context", None)
            self.probe("args-checked")
            if self.backend == "simrecctx" and ctx is None:
                self.flag("backend-args", "%s: backend asks for the context (pass_context) but get_or_create(%r) got none" % (label, key), "context")
            elif self.backend == "simrecctx" and ctx.get("x") != self.cur_x:
                self.flag("backend-args", "%s: get_or_create(%r) was handed a context whose x is %r: not the context of this render"
                          % (label, key, ctx.get("x")), "context")
            if self.backend == "simrec" and ctx is not None:
                self.flag("backend-args", "%s: backend did not ask for the context but got one" % label, "context")
            if got != want or any(type(got.get(a)) is not int for a in ("timeout",) if a in got):
                detail = "invalidate-before-first-render" if ti in self.early else None
                self.flag("backend-args", "%s: get_or_create(%r) received %r; Template cache_args <- <%%page> cache_* <- the section's own give %r"
                          % (label, key, got, want), detail)
                return

    def early_ops(self, ti):
        """names of the invalidate_* ops on this template object that came before its first render since (re)compile"""
        out = set()
        for op in self.trace["ops"][: self.cur_op]:
            if op[0] == "recompile" and op[1] == ti:
                out = set()
            elif op[0].startswith("render") and op[1] == ti:
                out = out  # keep: freezing happens at first use, which may precede any render
            elif op[0].startswith("invalidate") and op[1] == ti:
                out.add(op[0])
        return out


def execute(trace, root):
    h = Harness(trace, root)
    for j, op in enumerate(trace["ops"]):
        h.cur_op = j
        h.do(j, op)
        if getattr(h, "abort", False):
            break  # a render broke outright: the model has nothing left to compare against
    seen = set()
    violations = []
    for sig, msg in h.viol:
        if sig in seen:
            continue
        seen.add(sig)
        violations.append({"signature": sig, "message": msg})
    ops = trace["ops"]
    renders = {}
    for op in ops:
        if op[0] == "render":
            renders[op[1]] = renders.get(op[1], 0) + 1
    cached_t = [ti for ti, t in enumerate(trace["tmpls"]) if any(s["cached"] for s in all_sections(t))]
    nontrivial = any(renders.get(ti, 0) >= 2 for ti in cached_t) and any(o[0] not in ("render",) for o in ops)
    h.log.add("end", sorted(seen))
    return {
        "violations": violations,
        "digest": h.log.digest(),
        "counters": {"faults_fired": h.faults, "probes": h.probes},
        "hashes": {"model_states": list(h.state_hashes)},
        "totals": {"ops": len(ops), "renders": sum(renders.values()), "backend_" + trace["backend"]: 1,
                   "fault_free_runs": 0 if h.faults else 1},
        "sim_seconds": h.clock.covered,
        "nontrivial": nontrivial,
        "case_hash": stable_hash([trace["tmpls"], ops, trace["backend"]]),
        "sample": {"backend": trace["backend"], "base": trace.get("base"),
                   "templates": {t["uri"]: emit_template(t, "", trace["backend"]) for t in trace["tmpls"]},
                   "ops": ops[:14]},
    }
