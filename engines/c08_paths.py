"""C08 engine (partial claim): a template means the same on every compilation
and rendering path -- the axes that are about process lifetimes and a source
of nondeterminism: module files written by one interpreter and re-loaded by a
later one, and PYTHONHASHSEED.  A run is a small multi-process history: real
interpreters started with different hash seeds (vsim.c08node) share a scratch
template directory and module directory; every construction path x rendering
path is executed on each and all observations of one (program, context) must
agree.  The "all programs" axis is only sampled (feature fragments)."""

import json
import os
import re
import subprocess
import sys

from vsim.core import EventLog, stable_hash

NAME = "c08_paths"
PROPERTY = "C08"
SHRINK_LISTS = ()

HASHSEEDS = (0, 1, 2, 3, 5, 7, 11, 42, 1234)
RULE = ("one case = one seeded multi-process history: 2-4 generated programs (feature fragments: non-ASCII text in utf-8 / latin-1 / "
        "cp1251 sources, expressions and filters, <%! %> and <% %> code, defs with defaults taken from the context, nested defs whose "
        "defaults come from the context, blocks, calls with content, includes with args, inheritance, namespaces (named and import=), "
        "<%page args>, control lines with loop, many context names; URIs that differ only in non-word characters) written to a "
        "scratch directory; interpreter A (hash seed h1) constructs each via text / file (+ mako-render) / module directory "
        "(generating) / TemplateLookup (+ module directory or modulename_callable) and runs render, render_unicode, render_context, "
        "get_def(name).render; A is killed; interpreter B (h2) re-loads the module files A wrote (module directory reuse, "
        "ModuleTemplate, lookup) and C (h3) compiles afresh; all observations of one (program, context) must agree, source/code/"
        "has_def/list_defs must be the template's own. Non-trivial = at least one program with a def or a second file; distinct = "
        "hash of (programs, hash seeds).")
COMPONENTS = {
    "real": ["three separate CPython interpreters with different PYTHONHASHSEED", "mako.template (all construction paths), ModuleTemplate, DefTemplate",
             "mako.codegen (set-ordered emission)", "mako.cmd.cmdline (mako-render)", "mako.lookup (modulename_callable)",
             "module files on a real tmpfs, importlib"],
    "simulated": ["process lifetimes: which interpreter generates, which later one re-loads; hash seeds"],
    "stub": [],
}
ASSUMPTIONS = (
    "the program axis is a sample of feature combinations, not a grammar sweep (that axis is input generation, outside this technique)",
    "crash during module generation is C15's business and is not repeated here",
)
EXPECTED_PROBES = ("module-file-reloaded-by-later-process", "modtemplate", "mako-render", "get_def-rendered", "non-ascii-source",
                   "uris-differing-in-punctuation", "nested-def-default-from-context", "modulename_callable", "shadowed-in-second-directory",
                   "relative-uri-from-two-directories", "enable_loop-off", "lossy-encoding-errors")

ENC = {"utf8": "utf-8", "latin1": "latin-1", "cp1251": "cp1251", "ascii": "ascii"}
DECO = {"utf8": "grüß€Ж", "latin1": "grüßé", "cp1251": "ЖивоЯ", "ascii": "plain"}
CTX = {"x": "X1", "y": "<b>&amp;", "dflt": "DF", "z": "  Zz ", "a1": "A1", "a2": "A2", "a3": " ", "a4": "A4", "a5": "\tA5 ", "e": "",
       "q": "u=v==w&x=1"}


# ---------------------------------------------------------------- generator
def gen_program(rng, k, uri, enc):
    marker = "MK%d_%d" % (k, rng.randrange(10**6))
    head = ""
    if enc not in ("ascii", "utf8") or (enc == "utf8" and rng.random() < 0.5):
        head = "## -*- coding: %s -*-\n" % ENC[enc]
    defs = []
    body = ["<%%! MARK = %r %%>" % marker, "[%s %s]" % (marker, DECO[enc])]
    names = []
    files = {}
    feats = []
    n = rng.randint(2, 7)
    pool = ["cached", "relinclude", "relinclude", "nsattrorder", "nsdefault", "annotations", "expr", "modcode", "pycode", "defdefault", "nesteddefault", "block", "callcontent", "include", "namespace", "nsimport",
            "pageargs", "control", "text", "manynames", "shadow", "capture", "nesteddefault", "defdefault", "nsoverlap", "falsyargs",
            "falsyargs", "nsoverlap"]
    chosen = rng.sample(pool, min(n, len(pool)))
    inherit = rng.random() < 0.25
    j = 0
    for f in chosen:
        j += 1
        feats.append(f)
        if f == "expr":
            body.append("${x}|${y | h}|${y | n}|${z | u}|${x if x else 'none'}|${q}")
        elif f == "modcode":
            body.insert(0, "<%%! import re\nCONST%d = %d\ndef helper%d(s):\n    return re.sub('X', 'Y', s)\n%%>" % (j, j * 7, j))
            body.append("${CONST%d}${helper%d(x)}" % (j, j))
        elif f == "pycode":
            body.append("<%% loc%d = x + '!'\nlst%d = [c for c in 'ab'] %%>${loc%d}${''.join(lst%d)}" % (j, j, j, j))
        elif f == "defdefault":
            nm = "dd%d" % j
            names.append(nm)
            defs.append('<%%def name="%s(a, b=dflt, c=\'lit\')">[%s:${a}|${b}|${c}]</%%def>' % (nm, nm))
            body.append("${%s(x)}${%s(x, b='B2')}" % (nm, nm))
        elif f == "nesteddefault":
            nm = "nd%d" % j
            names.append(nm)
            defs.append('<%%def name="%s()"><%%def name="inner%d(a=dflt, b=z)">(${a}/${b}/${x})</%%def>N[${inner%d()}${inner%d(a=\'q\')}]</%%def>'
                        % (nm, j, j, j))
            body.append("${%s()}" % nm)
        elif f == "block":
            body.append('<%%block name="blk%d">B(${x})</%%block><%%block filter="h">${y}</%%block>' % j)
        elif f == "callcontent":
            nm = "wrap%d" % j
            names.append(nm)
            defs.append('<%%def name="%s(t=\'T\')">{${t}:${caller.body()}}</%%def>' % nm)
            body.append('<%%call expr="%s()">in ${x}</%%call><%%self:%s t="${z}">via-self</%%self:%s>' % (nm, nm, nm))
        elif f == "cached":
            # cached sections under the default backend with nothing configured: every path must be able to render them
            nm = "cd%d" % j
            names.append(nm)
            defs.append('<%%def name="%s()" cached="True">CD(${x})</%%def>' % nm)
            body.append('${%s()}<%%block name="cb%d" cached="True">CB(${z})</%%block>' % (nm, j))
        elif f == "relinclude":
            # the same relative uri used from two directories: each resolves next to the template that uses it
            import posixpath

            here = posixpath.dirname(uri).rstrip("/")
            files["%s/rel%d.html" % (here, k)] = head + "RA%d" % k
            files["/relB%d/other.html" % k] = head + 'O[<%%include file="rel%d.html"/>]' % k
            files["/relB%d/rel%d.html" % (k, k)] = head + "RB%d" % k
            body.append('<%%include file="rel%d.html"/><%%include file="/relB%d/other.html"/><%%include file="rel%d.html"/>' % (k, k, k))
        elif f == "include":
            files["/inc%d_%d.html" % (k, j)] = head + '<%page args="q=\'dq\', r=\'dr\'"/>I(${q}|${r}|${x})'
            body.append('<%%include file="/inc%d_%d.html" args="q=x"/><%%include file="/inc%d_%d.html"/>' % (k, j, k, j))
        elif f == "namespace":
            files["/lib%d_%d.html" % (k, j)] = head + '<%def name="f(v)">F(${v}|${dflt})</%def><%def name="g()">G${caller.body()}</%def>'
            body.append('<%%namespace name="ns%d" file="/lib%d_%d.html"/>${ns%d.f(x)}<%%ns%d:g>gb</%%ns%d:g>' % (j, k, j, j, j, j))
        elif f == "nsimport":
            files["/imp%d_%d.html" % (k, j)] = head + '<%%def name="imp%d(v)">IM(${v})</%%def>' % j
            body.append('<%%namespace file="/imp%d_%d.html" import="imp%d"/>${imp%d(z)}' % (k, j, j, j))
        elif f == "pageargs":
            if not any(b.startswith("<%page") for b in body):
                body.insert(0, '<%page args="pa=\'dpa\', pb=dflt"/>')
                body.append("${pa}${pb}")
        elif f == "control":
            body.append("\n% for i in range(3):\n${loop.index}${i}${loop.last}\n% if i == 1:\nmid${x}\n% elif i == 2:\nend\n% else:\nzero\n% endif\n% endfor\n")
        elif f == "text":
            body.append("<%text>${raw} <%def></%text>")
        elif f == "manynames":
            body.append("${a1}${a2}${a3}${a4}${a5}${z}${dflt}")
            nm = "mn%d" % j
            names.append(nm)
            defs.append('<%%def name="%s()">${a5}${a4}${a3}${a2}${a1}<%%def name="mi%d(p=a1, q=a2, r=a3)">${p}${q}${r}${a4}</%%def>${mi%d()}</%%def>' % (nm, j, j))
            body.append("${%s()}" % nm)
        elif f == "shadow":
            nm = "sh%d" % j
            names.append(nm)
            defs.append('<%%def name="%s(x)">S(${x}|${z})</%%def>' % nm)
            body.append("${%s('arg')}" % nm)
        elif f == "nsdefault":
            # a nested def whose argument default is an attribute of a namespace
            files["/nsd%d_%d.html" % (k, j)] = head + '<%def name="shout(v)">SH(${v})</%def>'
            nm = "nso%d" % j
            names.append(nm)
            defs.append('<%%namespace name="util%d" file="/nsd%d_%d.html"/><%%def name="%s()"><%%def name="ni%d(f=util%d.shout, g=dflt)">${f(x)}${g}</%%def>O[${ni%d()}]</%%def>'
                        % (j, k, j, nm, j, j, j))
            body.append("${%s()}" % nm)
        elif f == "nsattrorder":
            # <%ns:def a=".." b=".." c="..">: the attribute expressions are evaluated in the order they are written
            files["/ord%d_%d.html" % (k, j)] = head + '<%def name="three(a, b, c)">3(${a}|${b}|${c})</%def>'
            body.append('<%%namespace name="ord%d" file="/ord%d_%d.html"/><%% seq%d = iter(range(9)) %%>'
                        '<%%ord%d:three a="${next(seq%d)}" b="${next(seq%d)}" c="${next(seq%d)}"/>' % (j, k, j, j, j, j, j, j))
        elif f == "annotations":
            # Python code of the template that uses the run-time value of an annotation
            body.insert(0, "<%%!\ndef conv%d(v: float = 0):\n    return conv%d.__annotations__['v'](v) * 2\n%%>" % (j, j))
            body.append("${conv%d('7.5')}" % j)
        elif f == "nsoverlap":
            # several namespaces importing the same name: the last declared one wins
            parts = ""
            for q in ("alpha", "beta", "gamma"):
                parts += '<%%namespace name="%s%d" import="shared%d"><%%def name="shared%d()">%s</%%def></%%namespace>' % (q, j, j, j, q)
            body.append(parts + "NS[${shared%d()}]" % j)
        elif f == "falsyargs":
            # a def whose arguments all exist in the context, one of them falsy: get_def(name).render(**ctx)
            # must give what the def gives when called with those values inside the template
            nm = "fz%d" % j
            names.append(nm)
            defs.append('<%%def name="%s(x, e=\'de\', z=\'dz\')">[${x}|${e}|${z}]</%%def>' % nm)
            body.append("<<%s>>${%s(x, e, z)}<</%s>>" % (nm, nm, nm))
        elif f == "capture":
            nm = "cp%d" % j
            names.append(nm)
            defs.append('<%%def name="%s(v)">C(${v})</%%def>' % nm)
            body.append("${capture(%s, x) | u}" % nm)
    text = head
    if inherit:
        files["/base%d.html" % k] = head + 'BASE<${self.title()}>[${next.body()}]<%def name="title()">bt</%def><%block name="ftr">bf${x}</%block>'
        text += '<%%inherit file="/base%d.html"/>' % k
        defs.append('<%def name="title()">child-title</%def>')
        names.append("title")
        # a def that reaches into the inheritance chain: get_def(name).render() must set the chain up like render()
        defs.append('<%%def name="pd%d()">PD(${parent.title()}|${self.title()})</%%def>' % k)
        names.append("pd%d" % k)
        body.append("<<pd%d>>${pd%d()}<</pd%d>>" % (k, k, k))
    # options that live on the Template object rather than in the text: every path has to carry them over
    noloop = "control" not in feats and rng.random() < 0.25
    if noloop:
        body.append("(${loop})")  # with enable_loop=False `loop` is an ordinary context variable
    enc_errors = rng.choice(("replace", "xmlcharrefreplace", "backslashreplace")) if rng.random() < 0.25 else None
    if enc_errors:
        nm = "ne%d" % k
        names.append(nm)
        defs.append('<%%def name="%s()">NE(%s${x})</%%def>' % (nm, DECO[enc]))
        body.append("<<%s>>${%s()}<</%s>>" % (nm, nm, nm))
    text += "".join(defs) + "".join(body)
    return {"noloop": noloop, "encoding_errors": enc_errors, "k": k, "uri": uri, "encoding": enc, "text": text, "files": files, "defs": names, "marker": marker, "features": feats,
            "inherit": inherit, "shadow": bool(files) and rng.random() < 0.5,
            "output_encoding": "ascii" if enc_errors else rng.choice((None, None, "utf-8", "utf-16", "utf-8-sig"))}


def generate(rng, tier, idx, force=None):
    np_ = rng.randint(2, 4)
    uris = []
    stem = rng.choice(("a", "page", "sub/t"))
    if rng.random() < 0.6:
        uris += ["/%s-b.html" % stem, "/%s_b.html" % stem]
    while len(uris) < np_:
        uris.append("/p%d.html" % len(uris))
    rng.shuffle(uris)
    progs = [gen_program(rng, k, uris[k], rng.choice(("ascii", "utf8", "utf8", "latin1", "cp1251"))) for k in range(np_)]
    seeds = rng.sample(HASHSEEDS, 3)
    return {"engine": NAME, "property": PROPERTY, "programs": progs, "hashseeds": seeds,
            "modulename_callable": rng.random() < 0.3, "write_bytecode": rng.random() < 0.3}


def trace_size(trace):
    return sum(3 + len(p["features"]) * 2 + len(p["files"]) for p in trace["programs"])


def simplifications(trace):
    import copy

    if len(trace["programs"]) > 1:
        for k in range(len(trace["programs"]) - 1, -1, -1):
            c = copy.deepcopy(trace)
            del c["programs"][k]
            yield c
    if trace["write_bytecode"]:
        c = copy.deepcopy(trace)
        c["write_bytecode"] = False
        yield c


# ------------------------------------------------------------------ nodes
class Proc:
    def __init__(self, hashseed, write_bytecode):
        env = dict(os.environ)
        env["PYTHONHASHSEED"] = str(hashseed)
        env["VERIF_DIR"] = os.path.dirname(os.path.dirname(os.path.abspath(__file__)))
        if write_bytecode:
            env.pop("PYTHONDONTWRITEBYTECODE", None)
        else:
            env["PYTHONDONTWRITEBYTECODE"] = "1"
        self.hashseed = hashseed
        self.p = subprocess.Popen([sys.executable, "-m", "vsim.c08node"], cwd=env["VERIF_DIR"], env=env,
                                  stdin=subprocess.PIPE, stdout=subprocess.PIPE, stderr=subprocess.PIPE)

    def ask(self, req):
        self.p.stdin.write((json.dumps(req) + "\n").encode("utf-8"))
        self.p.stdin.flush()
        line = self.p.stdout.readline()
        if not line:
            err = self.p.stderr.read().decode("utf-8", "replace")[-1500:]
            raise RuntimeError("node (hash seed %s) died: %s" % (self.hashseed, err))
        out = json.loads(line)
        if "error" in out:
            raise RuntimeError("node error: %s" % out["error"])
        return out

    def kill(self):
        try:
            self.p.kill()
        except OSError:
            pass
        self.p.wait()
        for f in (self.p.stdin, self.p.stdout, self.p.stderr):
            try:
                f.close()
            except Exception:
                pass


def execute(trace, root):
    log = EventLog()
    viol = []
    probes = {}

    def probe(n):
        probes[n] = probes.get(n, 0) + 1

    def flag(cls, msg, detail=None):
        viol.append(("C08/" + cls + ((":" + detail) if detail else ""), msg))

    srcdir = os.path.join(root, "src")
    src2 = os.path.join(root, "src2")  # a second, lower-priority template directory
    os.makedirs(src2)
    md = os.path.join(root, "mod")
    md2 = os.path.join(root, "mod2")
    os.makedirs(srcdir)
    progs = trace["programs"]
    for p in progs:
        for uri, text in list(p["files"].items()) + [(p["uri"], p["text"])]:
            path = os.path.join(srcdir, uri.lstrip("/"))
            os.makedirs(os.path.dirname(path), exist_ok=True)
            with open(path, "wb") as f:
                f.write(text.encode(ENC[p["encoding"]]))
        if p.get("shadow"):
            # same-named support files in the lower-priority directory: they must never be served
            for uri, text in p["files"].items():
                path = os.path.join(src2, uri.lstrip("/"))
                os.makedirs(os.path.dirname(path), exist_ok=True)
                with open(path, "wb") as f:
                    f.write(("SHADOWED-COPY-OF-%s" % uri).encode("ascii"))
            probe("shadowed-in-second-directory")
        if p["encoding"] not in ("ascii",):
            probe("non-ascii-source")
        if p.get("noloop"):
            probe("enable_loop-off")
        if p.get("encoding_errors"):
            probe("lossy-encoding-errors")
    stems = {}
    for p in progs:
        stems.setdefault("".join(c if c.isalnum() else "_" for c in p["uri"]), []).append(p["uri"])
    collide = {u for grp in stems.values() if len(grp) > 1 for u in grp}
    if collide:
        probe("uris-differing-in-punctuation")
    results = {p["uri"]: [] for p in progs}  # uri -> list of battery outputs
    hs = trace["hashseeds"]

    def req_for(p, path, **extra):
        r = {"op": "battery", "path": path, "uri": p["uri"], "src": os.path.join(srcdir, p["uri"].lstrip("/")), "srcdir": srcdir,
             "encoding": ENC[p["encoding"]], "ctx": dict(CTX, loop="LP") if p.get("noloop") else CTX, "defs": p["defs"],
             "marker": p["marker"], "keep": True, "dirs": [srcdir, src2], "output_encoding": p.get("output_encoding"),
             "noloop": bool(p.get("noloop")), "encoding_errors": p.get("encoding_errors")}
        r.update(extra)
        if p.get("noloop") or p.get("encoding_errors"):
            r["cmd"] = False  # mako-render has no switch for either option
        return r

    nodes = []
    try:
        a = Proc(hs[0], trace["write_bytecode"])
        nodes.append(a)
        for p in progs:
            for path, extra in (("text", {}), ("file", {"cmd": True}), ("moddir", {"moddir": md}),
                                ("lookup", {"moddir": md2, "modulename_callable": trace["modulename_callable"]})):
                out = a.ask(req_for(p, path, **extra))
                out["node"] = "A"
                results[p["uri"]].append(out)
                if path == "file":
                    probe("mako-render")
        if trace["modulename_callable"]:
            probe("modulename_callable")
        a.kill()  # the generating process is gone; only the module directory survives
        before = {}
        for p in progs:
            mf = os.path.join(md, p["uri"].lstrip("/") + ".py")
            if os.path.exists(mf):
                with open(mf, "rb") as f:
                    before[p["uri"]] = f.read()
        b = Proc(hs[1], trace["write_bytecode"])
        nodes.append(b)
        for p in progs:
            mf = os.path.join(md, p["uri"].lstrip("/") + ".py")
            seq = [("moddir-reuse", {"moddir": md}), ("lookup", {"moddir": md2, "modulename_callable": trace["modulename_callable"]}),
                   ("file", {})]
            if p["uri"] in before:
                seq.insert(1, ("modtemplate", {"moddir": md, "modfile": mf}))
            for path, extra in seq:
                out = b.ask(req_for(p, path, **extra))
                out["node"] = "B"
                results[p["uri"]].append(out)
                if path == "moddir-reuse":
                    probe("module-file-reloaded-by-later-process")
                if path == "modtemplate":
                    probe("modtemplate")
            if p["uri"] in before:
                with open(mf, "rb") as f:
                    if f.read() != before[p["uri"]]:
                        flag("path-mismatch", "%s: the module file written by the first process was rewritten by the later one although the source did not change"
                             % p["uri"], "module-file-rewritten")
        b.kill()
        c = Proc(hs[2], trace["write_bytecode"])
        nodes.append(c)
        for p in progs:
            for path in ("text", "file"):
                out = c.ask(req_for(p, path))
                out["node"] = "C"
                results[p["uri"]].append(out)
        c.kill()
    finally:
        for n in nodes:
            n.kill()

    # ------------------------------------------------------------- oracle
    for p in progs:
        uri = p["uri"]
        outs = results[uri]
        written = p["text"]
        ref = None
        for o in outs:
            tag = "%s/%s(hashseed %s)" % (o["node"], o["path"], o["hashseed"])
            log.add("battery", uri, tag, o["construct"]["status"], sorted((k, v.get("text", v.get("exc"))) for k, v in o.get("renders", {}).items()))
            if o["construct"]["status"] != "ok":
                key = ("construct", o["construct"]["exc"])
            else:
                key = ("ok",)
            if ref is None:
                ref = (tag, o, key)
                continue
            rtag, ro, rkey = ref
            if key != rkey:
                detail = "hashseed-dependent" if o["hashseed"] != ro["hashseed"] and o["path"] == ro["path"] else "path-mismatch"
                flag(detail if detail == "hashseed-dependent" else "path-mismatch",
                     "%s: construction on %s gives %s but on %s gives %s" % (uri, rtag, rkey, tag, key),
                     None if detail == "hashseed-dependent" else "%s~%s" % (ro["path"], o["path"]))
                continue
            if key != ("ok",):
                continue
            # renders: every rendering path on every construction path on every node gives the same text
            base = ro["renders"]["render"]
            for name, r in sorted(o["renders"].items()):
                if name.startswith("get_def:"):
                    other = ro["renders"].get(name)
                    probe("get_def-rendered")
                elif p.get("encoding_errors"):
                    # bytes rendered with a lossy error policy differ from the text paths by design: like with like
                    other = ro["renders"].get(name)
                else:
                    other = base
                if other is None:
                    continue
                a_, b_ = _norm(other), _norm(r)
                if a_[0] == b_[0] == "raised" and "*" in (a_[1], b_[1]):
                    continue
                if a_ != b_:
                    same_path = o["path"] == ro["path"]
                    if o["hashseed"] != ro["hashseed"] and (same_path or _hash_dependent(outs, name)):
                        detail = None
                        if "UnboundLocalError" in (a_[1], b_[1]) or "cannot access local variable" in str(a_) + str(b_):
                            detail = "closure-before-fetch"
                        flag("hashseed-dependent", "%s: %s on %s gives %s, %s on %s gives %s" % (uri, "render" if other is base else name, rtag,
                                                                                              _short(other), name, tag, _short(r)), detail)
                    else:
                        flag("path-mismatch", "%s: %s on %s gives %s, %s on %s gives %s" % (uri, "render" if other is base else name, rtag,
                                                                                         _short(other), name, tag, _short(r)),
                             "%s~%s" % (ro["path"] + ("" if other is base else ""), o["path"] + ":" + name.split(":")[0]))
            # relative uris resolve against the directory of the template that uses them
            if "relinclude" in p["features"]:
                k_ = p["k"]
                want_rel = "RA%dO[RB%d]RA%d" % (k_, k_, k_)
                probe("relative-uri-from-two-directories")
                for name, r in sorted(o["renders"].items()):
                    if not name.startswith("get_def:") and r["status"] == "ok" and want_rel not in r["text"]:
                        flag("path-mismatch", "%s: %s on %s does not contain %r: 'rel%d.html' included from %s and from /relB%d/ must each resolve "
                             "next to the including template (%s)" % (uri, name, tag, want_rel, k_, uri, k_, _short(r)), "relative-uri")
                        break
            # a def rendered through get_def(name).render(**ctx) vs the same def called inside the template
            full = o["renders"]["render"]
            if full["status"] == "ok":
                for name, r in sorted(o["renders"].items()):
                    if not name.startswith(("get_def:fz", "get_def:pd", "get_def:ne")):
                        continue
                    dn = name.split(":", 1)[1]
                    m = re.search(r"<<%s>>(.*?)<</%s>>" % (dn, dn), full["text"], re.S)
                    if m and _norm(r) != ("ok", m.group(1)):
                        flag("path-mismatch", "%s on %s: get_def(%r).render(**ctx) gives %s, the def called with the same values inside the template gives %r"
                             % (uri, tag, dn, _short(r), m.group(1)), "render~get_def")
            # source / code / defs
            info = o["info"]
            if info.get("source") != written:
                detail = "module-name-collision" if uri in collide and any(info.get("source") == q["text"] for q in progs if q["uri"] != uri) else None
                flag("source-or-code", "%s on %s: Template.source is not the text of this template (%r...)" % (uri, tag, str(info.get("source"))[:60]), detail)
            if info.get("code_uri") is not True or info.get("code_marker") is not True:
                detail = "module-name-collision" if uri in collide else None
                flag("source-or-code", "%s on %s: Template.code is not this template's generated module (uri line %s, marker %s)"
                     % (uri, tag, info.get("code_uri"), info.get("code_marker")), detail)
            if info.get("code_is_module_file") is False:
                flag("source-or-code", "%s on %s: Template.code is not the text of the module file it was loaded from" % (uri, tag), "module-file-text")
            if info.get("list_defs") != ro["info"].get("list_defs") or info.get("has_def") != ro["info"].get("has_def"):
                flag("defs-mismatch", "%s: list_defs/has_def on %s give %s/%s, on %s %s/%s" % (uri, rtag, ro["info"].get("list_defs"),
                                                                                             ro["info"].get("has_def"), tag, info.get("list_defs"), info.get("has_def")))
            # templates constructed earlier in the same process keep their own source/code
            for (u, src, code_ok) in o.get("earlier", ()):
                q = next(q for q in progs if q["uri"] == u)
                if src != q["text"] or code_ok is not True:
                    detail = "module-name-collision" if u in collide else None
                    flag("source-or-code", "after constructing %s in the same process, the earlier Template for %s reports source/code of another template"
                         % (uri, u), detail)
        if any("nesteddefault" in f for f in p["features"]):
            probe("nested-def-default-from-context")
    seen = set()
    violations = []
    for sig, msg in viol:
        if sig in seen:
            continue
        seen.add(sig)
        violations.append({"signature": sig, "message": msg})
    log.add("end", sorted(seen))
    nontrivial = any(p["defs"] or p["files"] for p in progs)
    return {
        "violations": violations,
        "digest": log.digest(),
        "counters": {"faults_fired": {"process-killed": 3, "restart-with-other-hashseed": 2}, "probes": probes},
        "hashes": {},
        "totals": {"programs": len(progs), "batteries": sum(len(v) for v in results.values()), "interpreters": 3},
        "sim_seconds": 0.0,
        "nontrivial": nontrivial,
        "case_hash": stable_hash([[(p["uri"], p["text"], sorted(p["files"].items())) for p in progs], trace["hashseeds"]]),
        "sample": {"hashseeds": trace["hashseeds"], "programs": [{"uri": p["uri"], "encoding": p["encoding"], "features": p["features"],
                                                                  "text": p["text"][:400]} for p in progs[:2]]},
    }


def _norm(r):
    if r["status"] == "ok":
        return ("ok", r["text"])
    if r["msg"].startswith("mako-render exited"):
        return ("raised", "*")  # the command reports any failure as exit status 1
    return ("raised", r["exc"])


def _short(r):
    if r["status"] == "ok":
        return repr(r["text"][:80])
    return "raised %s: %s" % (r["exc"], r["msg"][:80])


def _hash_dependent(outs, name):
    """the same construction path gives different results under different hash seeds somewhere in this battery set"""
    by = {}
    for o in outs:
        if o["construct"]["status"] == "ok" and name in o["renders"]:
            by.setdefault(o["path"], set()).add((o["hashseed"], _norm(o["renders"][name])))
    for path, vals in by.items():
        if len({v for (_, v) in vals}) > 1:
            return True
    return False
