"""C16 engine: 2-3 real threads (plus an optional file-editing writer actor)
on one TemplateLookup, released one at a time by vsim.sched.Scheduler; the
recorded history (invoke/return stamped with the scheduler's global step) is
checked against the lookup rules of C14 specialised to concurrency."""

import os
import posixpath
import re
import sys
import traceback

from vsim import seams, simcache
from vsim.core import EventLog, SimClock, mkrng, stable_hash
from vsim.fs import World
from vsim.sched import Scheduler, SchedulerAbort, SimEvent, SimLock, ThreadingShim, make_tracer

NAME = "c16_threads"
PROPERTY = "C16"
SHRINK_LISTS = ("faults",)

RULE = ("one case = one seeded run: a lookup configuration (collection_size in {-1,1,2}, filesystem_checks, module directory "
        "mostly off), 2-5 template files (plain / including / inheriting / namespace-importing, optionally with a cached def on a "
        "lock-free reference backend, one file that fails to compile), 2-3 worker threads with 1-4 operations each "
        "{get_template, has_template, render with a unique context, get of the broken file} and optionally a writer actor "
        "{modify file, advance clock >= 1 s}, one scheduling strategy (random walk biased to shared-state code / PCT / pre-emption "
        "bounded <= 3 / round robin / stalled thread; about one run in 120 is a SWEEP: a small workload whose first thread is "
        "pre-empted at every one of its shared-state points in turn, one schedule per point) and one pre-emption granularity (coarse: lock, I/O, construction points; line; line + opcodes in hot functions). "
        "Non-trivial = at least two threads each performing a lookup or render; distinct = hash of the ordered (thread, point) "
        "sequence actually executed.")
COMPONENTS = {
    "real": ["mako.lookup.TemplateLookup (get_template/_check/_load/adjust_uri)", "mako.util.LRUCache", "mako.template.Template",
             "mako.runtime (Context, include, inherit, namespaces)", "mako.cache.Cache", "generated template modules",
             "real threading.Thread objects (parked/released one at a time)"],
    "simulated": ["which thread runs next (every lock op, I/O seam, Template construction, traced line/opcode)",
                  "TemplateLookup._mutex (SimLock: non-re-entrant, barging, blocking visible to the scheduler)",
                  "wall/monotonic clock", "file mtimes"],
    "stub": ["lock-free dict cache backend 'simdict' instead of Beaker (Beaker's real locks cannot be scheduled)"],
}
ASSUMPTIONS = (
    "pre-emption inside one line of C-implemented work (dict resize, sorted()) is not explored; opcode tracing reaches between "
    "bytecodes only in the listed hot functions",
    "Beaker/dogpile concurrency is not simulated",
    "PYTHONHASHSEED pinned to 0 for the batch (thorough tier repeats batches under other hash seeds)",
)
EXPECTED_PROBES = ("second-chance-read-hit", "mutex-contended", "two-threads-saw-stale", "failing-compile-while-other-waited",
                   "lru-eviction-during-run", "setitem-concurrent-with-manage-size", "cache-memoised-twice",
                   "writer-modified-during-call", "render-with-nested-lookups", "uri-cache-eviction", "direct-construct-with-module-directory", "adjust-uri-direct")

HOT_FUNCS = ("get_template", "_check", "_load", "adjust_uri", "__getitem__", "__setitem__", "_manage_size", "__get__")


def tagstr(tag):
    return "u%dd%dv%d" % tuple(tag)


LOOP = "\\\n% for i in (0, 1):\nL${loop.index}\\\n% for j in (0, 1):\nl${loop.index}${loop.parent.index}\\\n% endfor\n\\\n% endfor\n"
LOOP_TEXT = "L0l00l10L1l01l11"


def content(us, tag, cached, loops=False):
    t = tagstr(tag)
    if loops and us["kind"] in ("plain", "inc"):
        return _content(us, tag, cached) + LOOP
    return _content(us, tag, cached)


def _content(us, tag, cached):
    t = tagstr(tag)
    head = '<%%! VTAG = "%s" %%>' % t
    kind = us["kind"]
    fdef = '<%%def name="f()">F%s(${x})</%%def>' % t
    cdef = ('<%%def name="c()" cached="True" cache_timeout="600">C%s</%%def>${c()}' % t) if cached else ""
    if kind == "plain":
        return head + fdef + "T%s[${x}]" % t + cdef
    if kind == "inc":
        return head + fdef + 'T%s[${x}]<%%include file="%s"/>' % (t, us["ref"]) + cdef
    if kind == "inh":
        return head + '<%%inherit file="%s"/>' % us["ref"] + "T%s[${x}]" % t
    if kind == "ns":
        return head + fdef + '<%%namespace name="n" file="%s"/>' % us["ref"] + "T%s[${x}]${n.f()}" % t
    if kind == "base":
        return head + "B%s[${x}](${context['next'].body() if 'next' in context.keys() else ''})" % t
    if kind == "broken":
        return head + 'T%s[${x}]<%%def name="q()">unclosed' % t
    raise ValueError(kind)


def adjust_uri(ref, relativeto):
    if ref.startswith("/"):
        return ref
    return posixpath.join(posixpath.dirname(relativeto), ref)


def expected_text(tag, x, uspecs, nested, cached, loops=False):
    us = uspecs[tag[0]]
    if loops and us["kind"] in ("plain", "inc"):
        return _expected_text(tag, x, uspecs, nested, cached, loops) + LOOP_TEXT
    return _expected_text(tag, x, uspecs, nested, cached, loops)


def _expected_text(tag, x, uspecs, nested, cached, loops):
    us = uspecs[tag[0]]
    t = tagstr(tag)
    kind = us["kind"]
    own = "T%s[%s]" % (t, x)
    c = ("C%s" % t) if cached else ""
    if kind == "plain":
        return own + c
    if kind == "base":
        return "B%s[%s]()" % (t, x)
    ref = adjust_uri(us["ref"], us["uri"])
    q = nested.get(ref) or []
    if not q:
        raise LookupError("no nested template served for %r" % ref)
    sub = q.pop(0)
    if kind == "inc":
        return own + expected_text(sub, x, uspecs, nested, cached, loops) + c
    if kind == "ns":
        return own + "F%s(%s)" % (tagstr(sub), x)
    return "B%s[%s](%s)" % (tagstr(sub), x, own)


# ---------------------------------------------------------------- generator
SWEEP_EVERY = 80  # about one run in SWEEP_EVERY is a complete single-pre-emption sweep of a small workload


def generate(rng, tier, idx, force=None):
    if rng.random() < (1.0 / SWEEP_EVERY if tier == "quick" else 1.0 / 50):
        # systematic sweep: the first thread is pre-empted at EVERY one of its hot points in turn (one
        # schedule per point, enumerated inside this run); the other thread then runs to completion
        # (or, with sweep_j, hands back at its j-th hot point)
        t = _workload(rng, small=True)
        t["config"]["strategy"] = "sweep_all"
        t["config"]["granularity"] = rng.choice(("line", "line", "line", "coarse"))
        nworkers = len([n for n in t["actors"] if n != "W"])
        p = {"sweep_actor": rng.randrange(nworkers), "sweep_k": 0,
             "sweep_j": rng.randint(1, 70) if rng.random() < 0.3 else None}
        t["sched"] = {"seed": 0, "params": p}
        return t
    return _workload(rng, small=False)


def _workload(rng, small=False):
    cfg = {
        "collection_size": rng.choice((-1, 1, 1, 2)) if small else rng.choice((-1, -1, 1, 2)),
        "fs_checks": rng.random() < 0.85,
        "moddir": rng.random() < 0.2,
        "cached": rng.random() < 0.3,
        "loops": rng.random() < 0.35,
        "granularity": rng.choice(("coarse", "line", "line", "line", "opcode")),
        "strategy": rng.choice(("random", "random", "pct", "pct", "pb", "pb", "pb", "rr", "stall")),
        "auto_tick": 0.0,
        "gran_ns": 10**9,
    }
    names = ["a.html", "b.html", "sub/c.html", "sub/d.html", "e.html"]
    rng.shuffle(names)
    nuri = rng.randint(3, 5) if small else rng.randint(2, 5)
    uspecs = [{"uri": "/" + names[i], "rel": names[i], "kind": "plain"} for i in range(nuri)]
    idxs = list(range(nuri))
    r = rng.random()
    if nuri >= 3 and r < 0.35:
        base, inh = rng.sample(idxs, 2)
        uspecs[base]["kind"] = "base"
        uspecs[inh]["kind"] = "inh"
        uspecs[inh]["ref"] = _ref(rng, uspecs[inh], uspecs[base])
    plains = [i for i in idxs if uspecs[i]["kind"] == "plain"]
    if len(plains) >= 2 and rng.random() < 0.75:
        src, tgt = rng.sample(plains, 2)
        uspecs[src]["kind"] = rng.choice(("inc", "inc", "ns"))
        uspecs[src]["ref"] = _ref(rng, uspecs[src], uspecs[tgt])
    plains = [i for i in idxs if uspecs[i]["kind"] == "plain"]
    if len(plains) >= 2 and rng.random() < (0.8 if small else 0.4):
        src, tgt = rng.sample(plains, 2)
        uspecs[src]["kind"] = "inc"
        uspecs[src]["ref"] = _ref(rng, uspecs[src], uspecs[tgt])
    if small and rng.random() < 0.5:
        # many referring templates: every include/namespace reference is its own key in the (bounded, unlocked)
        # uri cache, so two rendering threads insert and prune there at the same time
        for i in idxs[1:]:
            if uspecs[i]["kind"] == "plain":
                tgt = rng.choice([j for j in idxs if j != i and uspecs[j]["kind"] in ("plain", "inc")] or [idxs[0]])
                if tgt != i and uspecs[tgt].get("ref") != uspecs[i]["uri"]:
                    uspecs[i]["kind"] = rng.choice(("inc", "ns")) if uspecs[tgt]["kind"] == "plain" else "inc"
                    uspecs[i]["ref"] = _ref(rng, uspecs[i], uspecs[tgt])
        # no reference cycles: a target that itself refers back is reset to plain
        for u in uspecs:
            if u["kind"] in ("inc", "ns"):
                tgt = next((v for v in uspecs if v["uri"] == adjust_uri(u["ref"], u["uri"])), None)
                seen = {u["uri"]}
                while tgt is not None and tgt["kind"] in ("inc", "ns"):
                    if tgt["uri"] in seen:
                        tgt["kind"] = "plain"
                        tgt.pop("ref", None)
                        break
                    seen.add(tgt["uri"])
                    tgt = next((v for v in uspecs if v["uri"] == adjust_uri(tgt["ref"], tgt["uri"])), None)
    has_broken = rng.random() < 0.3
    if has_broken:
        uspecs.append({"uri": "/broken.html", "rel": "broken.html", "kind": "broken"})
    renderable = [u["uri"] for u in uspecs if u["kind"] not in ("base", "broken")]
    gettable = [u["uri"] for u in uspecs if u["kind"] != "broken"]
    nthreads = 2 if small else rng.choice((2, 2, 3))
    actors = {}
    xn = 0
    hot = rng.choice(gettable)  # simultaneous requests for one URI are the interesting case
    for t in range(nthreads):
        ops = []
        for _ in range(rng.randint(2, 3) if small else rng.randint(1, 5)):
            if ops and rng.random() < (0.5 if small else 0.3):
                # re-access what this thread touched before: check-then-act on cached state
                prev = ops[-1]
                if prev[0] == "render":
                    xn += 1
                    ops.append(["render", prev[1], "%s%d" % ("ABC"[t], xn)])
                else:
                    ops.append(list(prev))
                continue
            r = rng.random()
            u = hot if rng.random() < 0.5 else rng.choice(gettable)
            if rng.random() < (0.35 if small else 0.12):
                # the uri arithmetic renders do for every include/inherit/namespace, called directly: each distinct
                # (uri, relativeto) pair is an entry of the bounded, unlocked uri cache
                for _ in range(rng.randint(1, 3)):
                    ops.append(["adjust", rng.choice(("x.html", "/y.html", "sub/z.html", "w.html")), rng.choice(("/a.html", "/sub/b.html", "/sub/deep/c.html"))])
                continue
            if cfg["moddir"] and rng.random() < 0.3:
                # Template(filename=..., module_directory=...) built directly, not through the lookup's mutex:
                # concurrent Templates for the same source in this process share the module file
                ops.append(["construct", hot if rng.random() < 0.6 else rng.choice(gettable)])
                continue
            if small and r < 0.75:
                xn += 1
                ops.append(["render", rng.choice(renderable), "%s%d" % ("ABC"[t], xn)])
            elif r < 0.40:
                ops.append(["get", u])
            elif r < 0.48:
                ops.append(["has", rng.choice(gettable + ["/missing.html"])])
            elif r < 0.90:
                xn += 1
                ops.append(["render", hot if (hot in renderable and rng.random() < 0.4) else rng.choice(renderable),
                            "%s%d" % ("ABC"[t], xn)])
            elif has_broken:
                ops.append(["get", "/broken.html"])
            else:
                ops.append(["get", "/missing.html"])
        actors["ABC"[t]] = ops
    if cfg["fs_checks"] and not small and rng.random() < 0.2:
        # phased history: every thread loads the hot URI, the writer then edits it >= 1 s later, and every
        # thread asks again at the same time: several threads see the same stale entry
        hot_i = next((i for i, u in enumerate(uspecs) if u["uri"] == hot), 0)
        for t in range(nthreads):
            xn += 1
            again = ["render", hot, "%s%d" % ("ABC"[t], xn)] if hot in renderable and rng.random() < 0.4 else ["get", hot]
            actors["ABC"[t]] = [["get", hot], ["signal", "ready"], ["wait", "go", 1], again] + actors["ABC"[t]][:2]
        actors["W"] = [["wait", "ready", nthreads], ["advance", rng.choice((1, 2))], ["modify", hot_i], ["advance", rng.choice((1, 1, 2))],
                       ["signal", "go"]]
    elif cfg["fs_checks"] and rng.random() < (0.15 if small else 0.4):
        wops = []
        for _ in range(rng.randint(1, 3)):
            # mostly the file every thread is asking for: two threads then see the same stale entry
            hot_i = next((i for i, u in enumerate(uspecs) if u["uri"] == hot), 0)
            wops.append(["modify", hot_i if rng.random() < 0.7 else rng.randrange(nuri)])
            wops.append(["advance", rng.choice((1, 1, 2))])
        actors["W"] = wops
    est = 60 if cfg["granularity"] == "coarse" else 600
    nops_total = sum(len(v) for k, v in actors.items() if k != "W")
    hot_est = max(12, nops_total * {"coarse": 6, "line": 28, "opcode": 110}[cfg["granularity"]])
    params = {
        "p_switch": rng.choice((0.003, 0.02, 0.1, 0.3, 0.6)),
        "p_hot": rng.choice((0.1, 0.3, 0.5)),
        "hot_preempt_steps": sorted(rng.sample(range(1, hot_est), 3)),
        "hot_change_points": sorted(rng.sample(range(1, hot_est), rng.choice((1, 2, 3)))),
        "change_points": sorted(rng.sample(range(1, est), rng.choice((0, 1, 2, 3)))),
        "preempt_steps": sorted(rng.sample(range(1, est), 2)),
        "preemptions": 3,
        "quantum": rng.choice((1, 2, 5, 17)),
        "stall": [rng.randrange(nthreads), rng.randrange(0, est // 2), rng.randrange(5, est)] if cfg["strategy"] == "stall" else None,
    }
    if cfg["strategy"] == "stall":
        cfg["strategy"] = "random"
    else:
        params["stall"] = None
    return {"engine": NAME, "property": PROPERTY, "config": cfg, "uspecs": uspecs, "actors": actors,
            "sched": {"seed": rng.getrandbits(32), "params": params}, "faults": []}


def _ref(rng, src, tgt):
    if posixpath.dirname(src["rel"]) == posixpath.dirname(tgt["rel"]) and rng.random() < 0.5:
        return posixpath.basename(tgt["rel"])
    return tgt["uri"]


def trace_size(trace):
    n = sum(len(v) for v in trace["actors"].values()) * 5 + len(trace["uspecs"])
    sch = trace.get("schedule")
    if sch:
        n += len(sch)  # context switches
    return n


def simplifications(trace):
    import copy

    # drop one operation of one actor / a whole actor
    for name in sorted(trace["actors"]):
        ops = trace["actors"][name]
        if len(trace["actors"]) > 2 or name == "W":
            c = copy.deepcopy(trace)
            del c["actors"][name]
            c.pop("schedule", None); c.pop("lock_timeouts", None)
            yield c
        for j in range(len(ops)):
            if len(ops) > 1:
                c = copy.deepcopy(trace)
                del c["actors"][name][j]
                c.pop("schedule", None); c.pop("lock_timeouts", None)
                yield c
    g = trace["config"]["granularity"]
    if g != "coarse":
        c = copy.deepcopy(trace)
        c["config"]["granularity"] = "coarse" if g == "line" else "line"
        c.pop("schedule", None); c.pop("lock_timeouts", None)
        yield c
    for key, val in (("cached", False), ("moddir", False)):
        if trace["config"].get(key) != val:
            c = copy.deepcopy(trace)
            c["config"][key] = val
            c.pop("schedule", None); c.pop("lock_timeouts", None)
            yield c
    # fewer context switches: merge adjacent schedule segments
    sch = trace.get("schedule")
    if sch and len(sch) > 2:
        for j in range(len(sch) - 1):
            c = copy.deepcopy(trace)
            a, b = c["schedule"][j], c["schedule"][j + 1]
            merged = [a[0], a[1] + b[1]]
            c["schedule"][j:j + 2] = [merged]
            c["schedule_lenient"] = True
            yield c


# ------------------------------------------------------------------ harness
class Harness:
    def __init__(self, trace, root):
        import mako.lookup
        import mako.template
        import mako.util

        self.trace = trace
        self.cfg = cfg = trace["config"]
        self.uspecs = trace["uspecs"]
        self.root = root
        self.clock = SimClock(start=1_000_000_000.0, auto_tick=cfg.get("auto_tick", 0.0))
        self.log = EventLog()
        self.world = World(root, self.clock, self.log, gran_ns=cfg.get("gran_ns", 10**9), faults=trace.get("faults", ()))
        sys.dont_write_bytecode = True
        seams.install(self.world, self.clock)
        simcache.register()
        simcache.reset()
        self.d0 = posixpath.join(root, "d0")
        os.makedirs(self.d0)
        self.moddir = posixpath.join(root, "mod") if cfg["moddir"] else None
        self.viol = []
        self.probes = {}
        self.versions = {}  # path -> [(step, version, mtime)]
        self.cur = {}
        for i, us in enumerate(self.uspecs):
            self.write_file(i, 0)
        replay = trace.get("schedule")
        self.sched = Scheduler(mkrng("sched:%s" % trace["sched"]["seed"]), cfg["strategy"], trace["sched"]["params"],
                               replay=replay, max_steps=20000)
        self.sched.timeout_rng.seed("lock-timeouts:%s" % trace["sched"]["seed"])
        if trace.get("lock_timeouts") is not None:
            self.sched.replay_timeouts = trace["lock_timeouts"]
        self.lenient = bool(trace.get("schedule_lenient"))
        if self.lenient and replay is not None:
            # a hand-edited (shrunk) schedule: past its end / on a non-runnable name fall back to "keep running"
            self.sched.replay_lenient = True
        import threading as _real_threading

        # locks created by mako code from now on are scheduler-visible
        _shim = ThreadingShim(self.sched, _real_threading)
        _lock_t, _rlock_t = type(_real_threading.Lock()), type(_real_threading.RLock())
        for _name, _m in sorted(sys.modules.items()):
            if _m is None or not (_name == "mako" or _name.startswith("mako.")):
                continue
            if _m.__dict__.get("threading") is _real_threading:
                _m.threading = _shim
            # ... and so are locks that a mako module created when it was imported
            for _k, _v in sorted(_m.__dict__.items()):
                if type(_v) is _lock_t:
                    setattr(_m, _k, _shim.Lock())
                elif type(_v) is _rlock_t:
                    setattr(_m, _k, _shim.RLock())
        self.lookup = mako.lookup.TemplateLookup(
            directories=[self.d0], module_directory=self.moddir, filesystem_checks=cfg["fs_checks"],
            collection_size=cfg["collection_size"], cache_impl="simdict")
        if isinstance(getattr(self.lookup, "_mutex", None), SimLock):
            self.mutex = self.lookup._mutex
            self.mutex.name = "lookup._mutex"
        else:
            self.mutex = SimLock(self.sched, "lookup._mutex")
            self.lookup._mutex = self.mutex
        self.cons = {}
        self.cons_active = 0
        self.events = {}
        self.built = {}  # id(Template) -> (actor, step at constructor entry, step at exit)
        self.keep = []
        self.records = {}  # actor -> list of call records
        self.nested = {}  # actor -> dict uri -> [tags] while rendering
        self.cache_objs = set()
        self.max_len = 0
        real_template = mako.template.Template
        harness = self

        def counting_template(*a, **kw):
            uri = kw.get("uri")
            harness.cons[uri] = harness.cons.get(uri, 0) + 1
            harness.sched.point("Template.enter")
            if harness.mutex.waiters:
                harness.probe("construct-while-other-waited")
            s_enter = harness.sched.step
            me = harness.sched.me()
            # lexing and code generation are thread-local work costing ~10^4 function calls: no line
            # tracing inside (I/O seams, the clock and the module-file path remain scheduling points)
            tr = sys.gettrace()
            if tr is not None:
                sys.settrace(None)
            try:
                try:
                    obj = real_template(*a, **kw)
                finally:
                    if tr is not None:
                        sys.settrace(tr)
                harness.built[id(obj)] = (me.name if me else "main", s_enter, harness.sched.step)
                harness.keep.append(obj)
                return obj
            finally:
                if not harness.sched.aborting:
                    harness.sched.point("Template.exit")

        mako.lookup.Template = counting_template
        real_get = self.lookup.get_template

        def recording_get(uri):
            return harness.recorded_get(real_get, uri)

        self.lookup.get_template = recording_get
        self.world.on_seam = lambda label, relp: self.sched.point("io:" + label)
        # LRU bound at every scheduling point
        self.setitem_code = mako.util.LRUCache.__setitem__.__code__
        self.manage_code = mako.util.LRUCache._manage_size.__code__
        cap = cfg["collection_size"]
        self.cap = None if cap == -1 else int(cap * 1.5)
        self.sched.on_point = self.on_point
        hot_names = set(HOT_FUNCS)

        def is_hot(label):
            # code that reads or writes state shared between threads: the lookup itself, the LRU
            # cache, memoised properties; plus lock operations and construction boundaries
            if label.startswith("L:") or label.startswith("O:"):
                _, fn, func, _ = label.split(":", 3)
                return fn == "lookup.py" or (fn == "util.py" and func in hot_names) or (fn == "cache.py" and func == "_get_cache_kw")
            return label.startswith("lock.") or label.startswith("Template.")

        self.sched.is_hot = is_hot
        gran = cfg["granularity"]
        if gran != "coarse":
            import mako.cache, mako.lexer, mako.runtime, mako.codegen  # noqa

            files = {os.path.abspath(m.__file__) for m in (mako.lookup, mako.util, mako.runtime, mako.cache, mako.template)}
            opc = set()
            if gran == "opcode":
                for obj in (mako.lookup.TemplateLookup.get_template, mako.lookup.TemplateLookup._check,
                            mako.lookup.TemplateLookup._load, mako.lookup.TemplateLookup.adjust_uri,
                            mako.util.LRUCache.__getitem__, mako.util.LRUCache.__setitem__, mako.util.LRUCache._manage_size,
                            mako.util.memoized_property.__get__):
                    opc.add(obj.__code__)
            moddir = self.moddir

            def is_template_file(fn):
                # generated modules: in-memory ones are named after the module id, file ones live in the module dir
                return fn.startswith("_") and fn.endswith("_html") or (moddir is not None and fn.startswith(moddir))

            self.sched.tracer = make_tracer(self.sched, files, is_template_file, opc, self.setitem_code)

    def probe(self, name, n=1):
        self.probes[name] = self.probes.get(name, 0) + n

    def flag(self, cls, msg, detail=None):
        self.viol.append(("C16/" + cls + ((":" + detail) if detail else ""), msg))

    def path(self, i):
        return posixpath.join(self.d0, self.uspecs[i]["rel"])

    def write_file(self, i, step):
        p = self.path(i)
        v = self.cur.get(p, (0, 0))[0] + 1
        tag = (i, 0, v)
        was = self.world.enabled
        self.world.enabled = False
        try:
            m = self.world.put_file(p, content(self.uspecs[i], tag, self.cfg["cached"], self.cfg.get("loops", False)))
        finally:
            self.world.enabled = was
        self.cur[p] = (v, m)
        self.versions.setdefault(p, []).append((step, v, m))

    def version_at(self, p, step):
        out = None
        for (s, v, m) in self.versions.get(p, ()):
            if s <= step:
                out = (v, m)
        return out

    def on_point(self, step, actor, label):
        if self.cap is not None:
            n = len(self.lookup._collection)
            if n > self.max_len:
                self.max_len = n
            inside = sum(a.in_setitem for a in self.sched.actors)
            if self.cfg["granularity"] == "coarse":
                inside = len(self.sched.actors)  # cannot see frames without tracing: allow one per thread
            if n > self.cap + inside and not getattr(self, "_bound_flagged", False):
                self._bound_flagged = True
                self.flag("lru-bound", "collection holds %d templates at a scheduling point (%s of %s); bound floor(1.5*%d)=%d plus %d thread(s) inside __setitem__"
                          % (n, label, actor.name, self.cfg["collection_size"], self.cap, inside))
            if inside >= 2:
                self.probe("setitem-concurrent-with-manage-size")

    # ---- recording
    def describe(self, obj):
        tag = getattr(getattr(obj, "module", None), "VTAG", None)
        if isinstance(tag, str):
            m = re.match(r"u(\d+)d(\d+)v(\d+)$", tag)
            if m:
                return tuple(int(g) for g in m.groups())
        return None

    def recorded_get(self, real_get, uri):
        a = self.sched.me()
        name = a.name if a else "main"
        s0 = self.sched.step
        t0 = self.clock.now
        c0 = self.cons.get(uri, 0)
        contended0 = self.mutex.contended
        rec = {"uri": uri, "s0": s0, "actor": name, "cached_at_invoke": dict.__contains__(self.lookup._collection, uri)}
        try:
            obj = real_get(uri)
        except SchedulerAbort:
            raise
        except BaseException as e:
            rec.update(kind="raised", exc=[c.__name__ for c in type(e).__mro__], msg=str(e)[:200], where=_where(e))
            rec["s1"] = self.sched.step
            self.records.setdefault(name, []).append(rec)
            self.log.add("get", name, uri, "raised", rec["exc"][0], s0, rec["s1"])
            raise
        self.keep.append(obj)
        complete = all(hasattr(obj, k) for k in ("module", "callable_", "lookup", "cache_enabled", "cache_args", "filename")) \
            and getattr(obj, "callable_", None) is not None
        rec.update(kind="served", obj=obj, tag=self.describe(obj), T=getattr(obj, "last_modified", None) if complete else None,
                   filename=getattr(obj, "filename", None), complete=complete, ncons=self.cons.get(uri, 0) - c0)
        rec["s1"] = self.sched.step
        if rec["ncons"] == 0 and self.mutex.contended > contended0:
            self.probe("second-chance-read-hit")
        self.records.setdefault(name, []).append(rec)
        self.log.add("get", name, uri, "served", tagstr(rec["tag"]) if rec["tag"] else None, s0, rec["s1"])
        nd = self.nested.get(name)
        if nd is not None and rec["tag"] is not None:
            nd.setdefault(uri, []).append(rec["tag"])
        return obj

    # ---- actor bodies
    def actor_fn(self, name, ops):
        def run():
            for op in ops:
                self.sched.point("op:" + op[0])
                self.do(name, op)
        return run

    def do(self, name, op):
        kind = op[0]
        self.log.add("op", name, *op)
        if kind == "modify":
            self.write_file(op[1], self.sched.step)
            self.probe("writer-modified-during-call")
        elif kind == "advance":
            self.clock.advance(op[1])
        elif kind == "get":
            try:
                self.lookup.get_template(op[1])
            except SchedulerAbort:
                raise
            except Exception:
                pass
        elif kind == "adjust":
            try:
                got = self.lookup.adjust_uri(op[1], op[2])
            except SchedulerAbort:
                raise
            except BaseException as e:
                self.flag("undocumented-exception", "%s: adjust_uri(%r, %r) raised %s: %s" % (name, op[1], op[2], type(e).__name__, str(e)[:100]),
                          "%s@%s" % (type(e).__name__, _where(e)))
                return
            want = adjust_uri(op[1], op[2])
            if got != want:
                self.flag("render-crosstalk", "%s: adjust_uri(%r, %r) returned %r instead of %r (an entry of another key)" % (name, op[1], op[2], got, want))
            self.probe("adjust-uri-direct")
        elif kind == "signal":
            self.event(op[1]).signal()
        elif kind == "wait":
            self.event(op[1]).wait(op[2])
        elif kind == "construct":
            self.do_construct(name, op[1])
        elif kind == "has":
            n0 = len(self.records.get(name, ()))
            try:
                r = self.lookup.has_template(op[1])
            except SchedulerAbort:
                raise
            except Exception:
                return
            recs = self.records.get(name, ())
            if len(recs) == n0 + 1:
                rec = recs[-1]
                if (rec["kind"] == "served") != (r is True) and not (rec["kind"] == "raised" and "TemplateLookupException" not in rec["exc"]):
                    self.flag("has-template-mismatch", "has_template(%r) returned %r although get_template %s" % (op[1], r, rec["kind"]))
        elif kind == "render":
            self.do_render(name, op[1], op[2])

    def event(self, name):
        ev = self.events.get(name)
        if ev is None:
            ev = self.events[name] = SimEvent(self.sched, name)
        return ev

    def do_construct(self, name, uri):
        import mako.template

        us = next(u for u in self.uspecs if u["uri"] == uri)
        p = posixpath.join(self.d0, us["rel"])
        s0 = self.sched.step
        try:
            t = mako.template.Template(filename=p, uri=uri, module_directory=self.moddir, lookup=self.lookup, cache_impl="simdict")
        except SchedulerAbort:
            raise
        except BaseException as e:
            if us["kind"] == "broken" and "SyntaxException" in [c.__name__ for c in type(e).__mro__]:
                return
            self.flag("undocumented-exception", "%s: Template(filename=%r, module_directory=...) raised %s: %s"
                      % (name, uri, type(e).__name__, str(e)[:120]), "%s@%s" % (type(e).__name__, _where(e)))
            return
        self.keep.append(t)
        self.probe("direct-construct-with-module-directory")
        tag = self.describe(t)
        at0 = self.version_at(p, s0)
        at1 = self.version_at(p, self.sched.step)
        if tag is None or tag[0] != self.uspecs.index(us) or not (at0[0] <= tag[2] <= at1[0]):
            # a reused module file may be one whole-second-mtime step behind, as in C15; only a foreign or future module is wrong
            if tag is None or tag[0] != self.uspecs.index(us) or tag[2] > at1[0]:
                self.flag("half-constructed", "%s: Template(filename=%r, module_directory=...) carries module %s while the file had v%d..v%d during the call"
                          % (name, uri, tag, at0[0], at1[0]))

    def do_render(self, name, uri, x):
        try:
            t = self.lookup.get_template(uri)
        except SchedulerAbort:
            raise
        except Exception:
            return
        top = self.records[name][-1]
        if not top.get("complete"):
            return
        self.nested[name] = {}
        nrec = len(self.records[name])
        s0 = self.sched.step
        try:
            try:
                text = t.render(x=x)
            finally:
                nested = self.nested.pop(name, {})
        except SchedulerAbort:
            raise
        except BaseException as e:
            recs = self.records[name]
            if len(recs) > nrec and recs[-1]["kind"] == "raised":
                return  # a nested lookup raised; that call is judged on its own
            self.flag("undocumented-exception", "%s: render(%r) raised %s: %s" % (name, uri, type(e).__name__, str(e)[:120]),
                      "%s@%s" % (type(e).__name__, _where(e)))
            return
        if nested:
            self.probe("render-with-nested-lookups")
        cobj = t.__dict__.get("cache")
        if cobj is not None:
            self.cache_objs.add((id(t), id(cobj)))
        if top["tag"] is None:
            return
        try:
            want = expected_text(top["tag"], x, self.uspecs, nested, self.cfg["cached"], self.cfg.get("loops", False))
        except LookupError as e:
            self.flag("render-crosstalk", "%s: render(%r): %s" % (name, uri, e))
            return
        # a cached section replays whatever version created the entry (a recompile within the same clock
        # reading keeps the entry: the cache's business, C17), so its version digit is not compared
        norm = lambda t: re.sub(r"C(u\d+d\d+)v\d+", r"C\1v*", t)
        if norm(text) != norm(want):
            self.flag("render-crosstalk", "%s: render(%r, x=%s) gave %r; alone, with the templates it was served, it gives %r"
                      % (name, uri, x, text[:120], want[:120]))
        self.log.add("render", name, uri, text)

    # ---- the run
    def run(self):
        for name in sorted(self.trace["actors"]):
            self.sched.add_actor(name, self.actor_fn(name, self.trace["actors"][name]))
        self.sched.run(watchdog_s=90.0)
        for a in self.sched.actors:
            if a.error is not None:
                raise RuntimeError("actor %s failed inside the harness: %r\n%s" % (
                    a.name, a.error, "".join(traceback.format_exception(type(a.error), a.error, a.error.__traceback__))[-1500:]))

    def check_history(self):
        s = self.sched
        if s.aborting == "deadlock":
            self.flag("deadlock", "no runnable thread: %s" % s.abort_info)
        elif s.aborting == "step-cap":
            self.flag("step-cap", "threads did not finish: %s" % s.abort_info)
        elif s.aborting == "diverged":
            raise RuntimeError("replay diverged: %s" % s.abort_info)
        if not s.aborting and self.mutex.owner is not None:
            self.flag("lock-leaked", "lookup mutex still held by %s after all threads finished" % getattr(self.mutex.owner, "name", "?"))
        if self.mutex.contended:
            self.probe("mutex-contended", self.mutex.contended)
        modified = set()
        for p, hist in self.versions.items():
            if len(hist) > 1:
                modified.add(p)
        allrecs = [r for recs in self.records.values() for r in recs]
        by_uri = {}
        documented = ("TemplateLookupException", "SyntaxException", "CompileException")
        for r in allrecs:
            uri = r["uri"]
            us = next((u for u in self.uspecs if u["uri"] == uri), None)
            p = posixpath.join(self.d0, us["rel"]) if us else None
            if r["kind"] == "raised":
                ok = False
                if us is None and "TopLevelLookupException" in r["exc"]:
                    ok = True
                elif us is not None and us["kind"] == "broken" and "SyntaxException" in r["exc"]:
                    ok = True
                    if self.mutex.contended:
                        self.probe("failing-compile-while-other-waited")
                if not ok:
                    self.flag("undocumented-exception", "%s: get_template(%r) raised %s: %s"
                              % (r["actor"], uri, r["exc"][0], r["msg"][:120]), "%s@%s" % (r["exc"][0], r["where"]))
                continue
            if not r["complete"]:
                self.flag("half-constructed", "%s: get_template(%r) returned an object lacking module/callable_/lookup/cache arguments"
                          % (r["actor"], uri))
                continue
            if us is None or us["kind"] == "broken":
                self.flag("undocumented-exception", "%s: get_template(%r) served a template for a %s file" % (
                    r["actor"], uri, "missing" if us is None else "broken"), "served@get_template")
                continue
            if r["filename"] != p:
                self.flag("stale-at-invoke", "%s: get_template(%r) served file %r, expected %r" % (r["actor"], uri, r["filename"], p))
                continue
            tag = r["tag"]
            at0 = self.version_at(p, r["s0"])
            at1 = self.version_at(p, r["s1"])
            if tag is None or tag[0] != self.uspecs.index(us):
                self.flag("render-crosstalk", "%s: get_template(%r) returned the module of another template (%s)" % (r["actor"], uri, tag))
                continue
            v = tag[2]
            if v > at1[0]:
                self.flag("stale-at-invoke", "%s: get_template(%r) returned v%d which did not exist yet at return (v%d)" % (r["actor"], uri, v, at1[0]))
            elif v < at0[0] and self.cfg["fs_checks"]:
                # older than what was on disk at invoke: only allowed inside the one-second zone
                # (mtime of the version current at invoke < stamp + 1), or if it was cached and checks are off
                if at0[1] >= r["T"] + 1:
                    b = self.built.get(id(r["obj"]))
                    detail = None
                    if b is not None and b[0] != r["actor"] and (b[2] >= r["s0"] or not r["cached_at_invoke"]):
                        # this call found nothing cached, waited for another thread's compile (which had read
                        # the file before the edit) and took its result from the second-chance read, unchecked
                        detail = "second-chance-read"
                    self.flag("stale-at-invoke", "%s: get_template(%r) invoked at step %d when v%d (mtime %.3f) was on disk, returned v%d stamped %.3f%s"
                              % (r["actor"], uri, r["s0"], at0[0], at0[1], v, r["T"],
                                 " (compiled by %s during steps %d-%d)" % b if b else ""), detail)
            by_uri.setdefault(uri, []).append(r)
        # simultaneous first requests compile once and receive the same object
        if self.cfg["collection_size"] == -1 and not s.aborting:
            for uri, recs in by_uri.items():
                us = next(u for u in self.uspecs if u["uri"] == uri)
                p = posixpath.join(self.d0, us["rel"])
                if p in modified:
                    two = [r for r in recs if r["ncons"]]
                    if len(two) >= 2:
                        self.probe("two-threads-saw-stale")
                    continue
                objs = {id(r["obj"]) for r in recs}
                if len(objs) > 1:
                    self.flag("different-objects", "unchanged %r: concurrent get_template calls returned %d different Template objects"
                              % (uri, len(objs)))
                if self.cons.get(uri, 0) > 1:
                    self.flag("compiled-twice", "unchanged %r was compiled %d times (requests by %s)"
                              % (uri, self.cons[uri], sorted({r["actor"] for r in recs})))
        # bounded lookup stays within its bound
        if self.cap is not None:
            n = len(self.lookup._collection)
            if n > self.cap:
                self.flag("lru-bound", "collection holds %d templates at the end; bound is floor(1.5*%d)=%d"
                          % (n, self.cfg["collection_size"], self.cap))
            if self.max_len > self.cfg["collection_size"]:
                self.probe("lru-eviction-during-run")
            if len(self.lookup._uri_cache) and any(r["kind"] == "served" for r in allrecs):
                if len(dict.keys(self.lookup._uri_cache)) >= self.cfg["collection_size"]:
                    self.probe("uri-cache-eviction")
        # every call of the cached def reaches the backend with the def's own arguments, the first one included
        import vsim.simcache as _sc

        for cid_, key, kw in _sc.ARGS:
            if key == "render_c":
                self.probe("cache-args-checked")
                if kw.get("timeout") != 600 or type(kw.get("timeout")) is not int:
                    self.flag("cache-args", "a concurrent render reached the backend for cached def c of %s with arguments %r; the def's own "
                              "are {'timeout': 600}" % (cid_, kw))
                    break
        per_t = {}
        for (tid, cid) in self.cache_objs:
            per_t.setdefault(tid, set()).add(cid)
        if any(len(v) > 1 for v in per_t.values()):
            self.probe("cache-memoised-twice")


def _where(e):
    """the innermost frame in mako/lookup.py if there is one, else the innermost mako frame"""
    tb = e.__traceback__
    name = "?"
    in_lookup = None
    while tb is not None:
        fn = tb.tb_frame.f_code.co_filename
        if "/mako/" in fn:
            name = tb.tb_frame.f_code.co_name
            if fn.endswith("/mako/lookup.py"):
                in_lookup = name
        tb = tb.tb_next
    return in_lookup or name


def execute(trace, root):
    if trace["config"]["strategy"] == "sweep_all":
        return execute_sweep(trace, root)
    return execute_single(trace, root)


def execute_sweep(trace, root):
    """Enumerate every single-pre-emption schedule of the sweep actor: one forked child per point."""
    import copy
    from vsim import runner

    def one(k):
        t = copy.deepcopy(trace)
        t["config"]["strategy"] = "sweep"
        t["sched"]["params"]["sweep_k"] = k
        sub = os.path.join(root, "k%d" % k)
        os.makedirs(sub)
        status, res = runner.run_in_child(execute_single, (t, sub), 60.0)
        if status != "ok":
            raise RuntimeError("sweep child k=%d: %s %s" % (k, status, str(res)[-1500:]))
        import shutil
        shutil.rmtree(sub, ignore_errors=True)
        return t, res

    t0, dry = one(10**9)
    sa = trace["sched"]["params"]["sweep_actor"]
    H = dry["actor_hot"][sa]
    log = EventLog()
    log.add("dry", dry["digest"], H)
    agg = dry
    agg["hashes"]["interleavings"] = list(agg["hashes"]["interleavings"])
    seen = {v["signature"] for v in dry["violations"]}
    patch = None
    if dry["violations"]:
        patch = t0
    for k in range(1, H + 1):
        tk, res = one(k)
        log.add("k", k, res["digest"])
        agg["hashes"]["interleavings"].extend(res["hashes"]["interleavings"])
        for name in ("faults_fired", "probes"):
            for kk, vv in res["counters"][name].items():
                agg["counters"][name][kk] = agg["counters"][name].get(kk, 0) + vv
        for kk, vv in res["totals"].items():
            agg["totals"][kk] = agg["totals"].get(kk, 0) + vv
        for v in res["violations"]:
            if v["signature"] not in seen:
                seen.add(v["signature"])
                v = dict(v)
                v["message"] = "[sweep: %s pre-empted at its hot point %d of %d] %s" % ("ABC"[sa], k, H, v["message"])
                agg["violations"].append(v)
                if patch is None:
                    patch = tk
                    patch["schedule"] = res["trace_patch"]["schedule"]
    agg["digest"] = log.digest()
    agg["totals"]["sweep_workloads"] = 1
    agg["totals"]["sweep_schedules"] = H + 1
    agg["case_hash"] = stable_hash([trace["config"], trace["actors"], trace["uspecs"]])
    agg["sample"]["sweep"] = {"actor": "ABC"[sa], "hot_points": H, "schedules": H + 1}
    agg.pop("trace_patch", None)
    if patch is not None:
        agg["trace_patch"] = {k: patch[k] for k in ("config", "sched", "schedule") if k in patch}
    return agg


def execute_single(trace, root):
    sys.setswitchinterval(1e-3)
    h = Harness(trace, root)
    h.run()
    h.check_history()
    seen = set()
    violations = []
    for sig, msg in h.viol:
        if sig in seen:
            continue
        seen.add(sig)
        violations.append({"signature": sig, "message": msg})
    ih = h.sched.interleaving_hash()
    h.log.add("end", ih, sorted(seen))
    nthreads = sum(1 for n, ops in trace["actors"].items() if n != "W" and any(o[0] in ("get", "render", "has", "adjust", "construct") for o in ops))
    out = {
        "violations": violations,
        "digest": h.log.digest(),
        "counters": {"faults_fired": {"preemption": h.sched.switches,
                                      "writer-edit": h.probes.get("writer-modified-during-call", 0),
                                      "stalled-thread": 1 if trace["sched"]["params"].get("stall") else 0},
                     "probes": h.probes},
        "hashes": {"interleavings": [ih]},
        "totals": {"scheduling_points": h.sched.step, "context_switches": h.sched.switches, "hot_points": h.sched.hot_count,
                   "calls": sum(len(v) for v in h.records.values()), "gran_" + trace["config"]["granularity"]: 1,
                   "strategy_" + trace["config"]["strategy"]: 1},
        "actor_hot": [a.hot_seen for a in h.sched.actors],
        "sim_seconds": h.clock.covered,
        "nontrivial": nthreads >= 2,
        "case_hash": ih,
        "sample": {"config": trace["config"], "actors": trace["actors"], "uspecs": trace["uspecs"],
                   "schedule_head": h.sched.decisions[:10], "scheduling_points": h.sched.step},
    }
    if trace.get("schedule") is None:
        out["trace_patch"] = {"schedule": h.sched.decisions, "lock_timeouts": [int(d) for d in h.sched.timeout_decisions]}
    return out
