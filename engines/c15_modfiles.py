"""C15 engine: module files -- staleness histories, every crash point of the
module-writing path, failing system calls, multi-process lock-step schedules.

Each construct runs in a forked *process node* (vsim.procs); only the scratch
file system survives a node.  One run = one history (<= 12 operations) whose
final construct is executed in one of four tails:
  plain  - like the others (staleness rules only)
  crash  - dry pass counts the seam calls, then the same construct is re-run
           once per (k, before|after|mid): ALL crash points, not a sample
  fault  - a failing / short / degraded system call, process survives
  multi  - 2-8 nodes construct the same Template in lock step under a seeded
           scheduler, optionally with one crash
"""

import hashlib
import os
import posixpath
import re
import shutil

from vsim import procs
from vsim.core import EventLog, SimClock, mkrng, stable_hash
from vsim.fs import World

NAME = "c15_modfiles"
PROPERTY = "C15"
SHRINK_LISTS = ("faults",)

RULE = ("one case = one seeded history over {modify source with newer/older/equal mtime, delete module file, replace module "
        "file by one with another magic number, advance clock, construct Template in a fresh process} (<= 12 ops) x a tail for "
        "the final construct: plain | crash (every seam call k of the construct x before/after/mid-write, enumerated) | fault "
        "(enospc/eio/short-write/rename-fails at a chosen call) | multi (2-8 lock-step processes, seeded schedule, optional "
        "crash). Non-trivial = the history contains a construct preceded by a state change, or a non-plain tail; distinct = "
        "hash of (config, ops, tail).")
COMPONENTS = {
    "real": ["mako.template.Template.__init__/_compile_from_file/_compile_module_file", "mako.util.verify_directory",
             "mako.compat.load_module + importlib", "mako.lexer/codegen", "tmpfs (real POSIX rename/O_EXCL)",
             "real forked processes (death = os._exit inside the seam)"],
    "simulated": ["process lifetimes and deaths", "order in which processes proceed (lock step at seam granularity)",
                  "outcome of mkdir/mkstemp/write/close/rename (fault plan)", "wall clock and file mtimes"],
    "stub": ["recording module_writer (writes atomically, logs its arguments)"],
}
ASSUMPTIONS = (
    "seam granularity: a process can die only before/after a file-system call of the module-writing path or midway through a write; "
    "importlib's own bytecode writing is not a crash point",
    "power-loss semantics (un-fsynced data) are out of scope: the property speaks of the process dying",
    "PYTHONHASHSEED pinned to 0",
)
EXPECTED_PROBES = ("rewrite:missing", "rewrite:older", "rewrite:magic", "reuse-unchanged", "either-zone",
                   "crash:before-create", "crash:during-fill", "crash:between-close-and-move", "crash:after-move",
                   "crash:in-mkdir", "multi:two-writers-in-write-phase", "multi:reader-loaded-while-writer-midway",
                   "writer-called", "fault-raised-cleanly", "survivor-regenerated", "survivor-reused", "same-process-reconstruct",
                   "source-is-a-symlink")

TRAILER = b'__M_END_METADATA\n"""\n'
ENCODINGS = {
    "ascii": ("", "plain text"),
    "utf8": ("## -*- coding: utf-8 -*-\n", "grüß € Ж"),
    "latin1": ("## -*- coding: latin-1 -*-\n", "grüß é"),
    "cp1251": ("## -*- coding: cp1251 -*-\n", "Живо"),
}
PYENC = {"ascii": "ascii", "utf8": "utf-8", "latin1": "latin-1", "cp1251": "cp1251"}


def source_bytes(v, enc, pad):
    head, deco = ENCODINGS[enc]
    text = '%s<%%! VTAG = "v%d" %%>BODY v%d %s [${x}]%s' % (head, v, v, deco, "." * pad)
    return text.encode(PYENC[enc])


def expected_text(v, enc, pad, x):
    head, deco = ENCODINGS[enc]
    return "BODY v%d %s [%s]%s" % (v, deco, x, "." * pad)


# ---------------------------------------------------------------- generator
def generate(rng, tier, idx, force=None):
    sub = rng.random() < 0.4
    cfg = {
        "clock_mode": "subsecond" if sub else "whole",
        "auto_tick": rng.choice((0.0, 0.001, 0.05)) if sub else 0.0,
        "gran_ns": rng.choice((1, 1, 10**9)) if sub else 10**9,
        "phase": round(rng.random(), 3) if sub else 0.0,
        "write_bytecode": rng.random() < 0.3,
        "via": rng.choice(("template", "template", "lookup")),
        "writer": rng.random() < 0.2,
        "encoding": rng.choice(("ascii", "ascii", "utf8", "latin1", "cp1251")),
        "depth": rng.choice((0, 1, 1, 2)),
        "pad": rng.choice((0, 0, 3, 40)),
        "copy_chunks": rng.choice((2, 3)),
    }
    nops = rng.randint(1, 11)
    ops = []
    for _ in range(nops):
        r = rng.random()
        if r < 0.30:
            ops.append(["construct"])
        elif r < 0.62:
            mode = rng.choice(("newer", "newer", "newer", "older", "equal"))
            ops.append(["modify", mode])
        elif r < 0.72:
            ops.append(["delete_module"])
        elif r < 0.82:
            ops.append(["replace_magic", rng.choice((7, 9, 11, 99))])  # an older *or newer* generator version
        else:
            ops.append(["advance", rng.choice((1, 2, 5)) if not sub else rng.choice((0.1, 0.5, 0.999, 1, 1.001, 2, 5))])
    ops.append(["construct"])
    r = rng.random()
    tail = {"kind": "plain"}
    faults = []
    if r < 0.30:
        tail = {"kind": "crash"}
        cfg["writer"] = False
    elif r < 0.55:
        tail = {"kind": "fault"}
        cfg["writer"] = False
        kind, call = rng.choice((("enospc", "write"), ("eio", "write"), ("eio", "close"), ("enospc", "mkstemp"),
                                 ("enospc", "mkdir"), ("eio", "rename"), ("short-write", "write"), ("short-write", "write"),
                                 ("short-writes", "write"), ("short-writes", "write"),
                                 ("rename-fails", "rename"), ("rename-fails", "rename")))
        faults = [{"kind": kind, "call": call, "nth": 0,
                   "arg": rng.choice((17, 64, 300)) if kind == "short-writes" else rng.choice((0.1, 0.5, 0.9))}]
        if kind == "rename-fails" and rng.random() < 0.5:
            k2, c2 = rng.choice((("enospc", "copy-write"), ("crash-mid", "copy-write"), ("crash-after", "copy-open"),
                                 ("crash-before", "unlink"), ("crash-after", "copy-write")))
            faults.append({"kind": k2, "call": c2, "nth": rng.choice((0, 1)), "arg": 0.5})
    elif r < 0.88 and r >= 0.80:
        # the same process constructs the Template, the source changes (dated 2 s later, the clock does not move),
        # and the same process constructs it again
        tail = {"kind": "twice"}
        cfg["writer"] = False
    elif r < 0.80:
        tail = {"kind": "multi", "nodes": rng.choice((2, 2, 3, 4, 8)), "strategy": rng.choice(("random", "random", "pct")),
                "sched_seed": rng.getrandbits(32), "crash": rng.random() < 0.35}
        cfg["writer"] = False
        cfg["auto_tick"] = rng.choice((0.0, 0.001)) if sub else 0.0
    # the source path is a symbolic link (a "current release" link): edits go to its target, the link keeps its own age
    cfg["linksrc"] = rng.random() < 0.2
    return {"engine": NAME, "property": PROPERTY, "config": cfg, "ops": ops, "tail": tail, "faults": faults}


def trace_size(trace):
    return len(trace["ops"]) * 3 + len(trace["faults"]) + (trace["tail"].get("nodes", 1)) + len(trace.get("schedule", ())) // 4


def simplifications(trace):
    import copy

    t = trace["tail"]
    if t["kind"] == "multi" and t["nodes"] > 2:
        c = copy.deepcopy(trace)
        c["tail"]["nodes"] = t["nodes"] - 1
        c.pop("schedule", None)
        yield c
    for key, val in (("write_bytecode", False), ("depth", 0), ("pad", 0), ("encoding", "ascii"), ("via", "template"),
                     ("auto_tick", 0.0)):
        if trace["config"].get(key) != val:
            c = copy.deepcopy(trace)
            c["config"][key] = val
            c.pop("schedule", None)
            yield c


# ------------------------------------------------------------- node task
def node_construct(world, clock, spec):
    import mako.lookup
    import mako.template

    calls = []
    writer = None
    if spec["writer"]:
        def writer(source, path):
            calls.append((type(source).__name__, hashlib.sha1(bytes(source)).hexdigest(), path))
            was = world.enabled
            world.enabled = False
            try:
                world.put_file(path, bytes(source))
            finally:
                world.enabled = was

    try:
        if spec["via"] == "lookup":
            lk = mako.lookup.TemplateLookup(directories=[spec["srcdir"]], module_directory=spec["moddir"],
                                            module_writer=writer)
            t = lk.get_template(spec["uri"])
        else:
            t = mako.template.Template(filename=spec["src"], module_directory=spec["moddir"], uri=spec["uri"],
                                       module_writer=writer)
        text = t.render(x=spec["x"])
        out = {"status": "ok", "text": text, "vtag": getattr(t.module, "VTAG", None), "T": t.last_modified,
               "modfile": getattr(t.module, "__file__", None)}
    except Exception as e:
        out = {"status": "raised", "exc": [c.__name__ for c in type(e).__mro__], "msg": str(e)[:300]}
    out["writer_calls"] = calls
    return out


def node_construct_twice(world, clock, spec, new_source, modpath):
    first = node_construct(world, clock, spec)
    # two whole seconds after everything that exists now (the first construct may have taken simulated time)
    stamps = [clock.now, os.stat(spec["src"]).st_mtime]
    try:
        stamps.append(os.stat(modpath).st_mtime)
    except OSError:
        pass
    new_mtime = float(int(max(stamps)) + 2)
    was = world.enabled
    world.enabled = False
    try:
        world.put_file(os.path.realpath(spec["src"]), new_source, new_mtime)
    finally:
        world.enabled = was
    spec2 = dict(spec)
    spec2["x"] = spec["x"] + "b"
    second = node_construct(world, clock, spec2)
    return {"first": first, "second": second}


# ------------------------------------------------------------------ driver
class Driver:
    def __init__(self, trace, root):
        self.trace = trace
        self.cfg = cfg = trace["config"]
        self.root = root
        self.clock = SimClock(start=1_000_000_000.0 + cfg["phase"], auto_tick=0.0)
        self.log = EventLog()
        self.world = World(root, self.clock, self.log, gran_ns=cfg["gran_ns"])
        self.world.enabled = False
        self.srcdir = posixpath.join(root, "src")
        self.moddir = posixpath.join(root, "mod")
        rel = "/".join(["sub%d" % i for i in range(cfg["depth"])] + ["t.html"])
        self.uri = "/" + rel
        self.src = posixpath.join(self.srcdir, rel)
        self.modpath = posixpath.join(self.moddir, rel + ".py")
        if cfg.get("linksrc"):
            os.makedirs(posixpath.dirname(self.src), exist_ok=True)
            target = posixpath.join(root, "releases", "t.html")
            os.makedirs(posixpath.dirname(target), exist_ok=True)
            os.symlink(target, self.src)
            ns = int(self.clock.now * 1e9)
            os.utime(self.src, ns=(ns, ns), follow_symlinks=False)
        self.v = 0
        self.viol = []
        self.probes = {}
        self.faults_fired = {}
        self.crash_points = 0
        self.crash_points_total = 0
        self.interleavings = set()
        self.state_hashes = set()
        self.xn = 0
        self.schedule_taken = None
        self.classify_cache = {}
        self.nodes_run = 0
        self.generations = {}  # (size, mtime second) -> set of content hashes seen at the module path
        self.ctx_detail = None  # detail of the defect that produced a torn file (consequences carry it too)
        self.modify("newer", first=True)

    def flag(self, cls, msg, detail=None):
        self.viol.append(("C15/" + cls + ((":" + detail) if detail else ""), msg))

    def probe(self, name, n=1):
        self.probes[name] = self.probes.get(name, 0) + n

    # ---- disk state
    def read_mod(self):
        try:
            with open(self.modpath, "rb") as f:
                return f.read()
        except FileNotFoundError:
            return None

    def classify(self, data):
        """None | dict(complete=True, v=, T0=, magic=) | dict(complete=False, why=)"""
        if data is None:
            return None
        h = hashlib.sha1(data).hexdigest()
        c = self.classify_cache.get(h)
        if c is not None:
            return c
        c = {"complete": False, "hash": h, "why": "?"}
        if not data.endswith(TRAILER):
            c["why"] = "does not end with the metadata trailer (%d bytes)" % len(data)
        else:
            try:
                text = data.decode(PYENC[self.cfg["encoding"]] if self.cfg["encoding"] != "ascii" else "utf-8")
                compile(data, "<module file>", "exec")
                mv = re.search(r'VTAG = "v(\d+)"', text)
                mt = re.search(r"_modified_time = ([0-9.e+]+)", text)
                mm = re.search(r"_magic_number = (\d+)", text)
                if text.count("__M_BEGIN_METADATA") != 1 or not (mv and mt and mm):
                    c["why"] = "metadata or module constants missing/duplicated"
                else:
                    c = {"complete": True, "hash": h, "v": int(mv.group(1)), "T0": float(mt.group(1)),
                         "magic": int(mm.group(1))}
            except Exception as e:
                c["why"] = "%s: %s" % (type(e).__name__, e)
        self.classify_cache[h] = c
        return c

    def pre_state(self):
        data = self.read_mod()
        st = {"data": data, "cls": self.classify(data), "M": None, "m": os.stat(self.src).st_mtime, "v": self.v}
        if data is not None:
            st["M"] = os.stat(self.modpath).st_mtime
            self.note_generation(data, st["M"])
        return st

    def note_generation(self, data, M):
        self.generations.setdefault((len(data), int(M)), set()).add(hashlib.sha1(data).hexdigest())

    def stale_pyc_pre(self, pre):
        if not self.cfg["write_bytecode"] or pre["data"] is None:
            return False
        return len(self.generations.get((len(pre["data"]), int(pre["M"])), ())) > 1

    def stale_pyc_possible(self, post):
        """importlib validates cached bytecode by (source mtime in whole seconds, source size).  True when
        the module path held *different* content with the same size in the same second before: then
        CPython, not Mako, decides which code runs."""
        if not self.cfg["write_bytecode"] or post is None:
            return False
        try:
            M = os.stat(self.modpath).st_mtime
        except OSError:
            return False
        self.note_generation(post, M)
        return len(self.generations.get((len(post), int(M)), ())) > 1

    def zone(self, pre):
        import mako.codegen

        c = pre["cls"]
        if c is None:
            return ("must_rewrite", "missing")
        if not c["complete"]:
            return ("either", "torn")  # already reported where it appeared
        if c["magic"] != mako.codegen.MAGIC_NUMBER:
            if int(pre["M"]) < int(pre["m"]):
                return ("must_rewrite", "older")
            return ("must_rewrite", "magic")
        if int(pre["M"]) < int(pre["m"]):
            return ("must_rewrite", "older")
        if pre["M"] >= pre["m"] and c["T0"] >= pre["m"]:
            return ("must_reuse", None)
        return ("either", None)

    # ---- history operations
    def modify(self, mode, first=False):
        self.v += 1
        mtime = None
        M = None
        try:
            M = os.stat(self.modpath).st_mtime
        except OSError:
            pass
        if first or M is None or mode == "newer":
            if not first:
                # fault-free clock: no mtime lies in the future; newer = at least the next clock reading
                if self.cfg["clock_mode"] == "whole":
                    self.clock.advance(1.0)
        elif mode == "equal":
            mtime = M
        else:
            mtime = M - 2.0
        m = self.world.put_file(os.path.realpath(self.src), source_bytes(self.v, self.cfg["encoding"], self.cfg["pad"]), mtime)
        if self.cfg.get("linksrc"):
            self.probe("source-is-a-symlink")
        self.log.add("modify", mode, self.v, round(m, 6))

    def do(self, op):
        name = op[0]
        self.log.add("op", *op)
        if name == "modify":
            self.modify(op[1])
        elif name == "advance":
            self.clock.advance(op[1])
        elif name == "delete_module":
            self.world.del_file(self.modpath)
        elif name == "replace_magic":
            data = self.read_mod()
            c = self.classify(data)
            if c and c["complete"]:
                other = op[1] if len(op) > 1 else 7
                new = re.sub(rb"_magic_number = \d+", b"_magic_number = %d" % other, data, count=1)
                new = new.replace(b"from mako import runtime", b"# written by another generator version\nfrom mako import runtime", 1)
                self.world.put_file(self.modpath, new)
        elif name == "construct":
            self.construct_plain()
        else:
            raise ValueError(name)

    # ---- running nodes
    def spec(self):
        self.xn += 1
        return {"src": self.src, "srcdir": self.srcdir, "moddir": self.moddir, "uri": self.uri, "via": self.cfg["via"],
                "writer": self.cfg["writer"], "x": "x%d" % self.xn}

    # ---- the generic oracle for one construct
    def check_construct(self, pre, node, label, allow_raise=False):
        zone, why = self.zone(pre)
        post = self.read_mod()
        pcls = self.classify(post)
        allowed = self.allowed_hashes(pre, [node])
        self.check_observations(pre, [node], allowed, label)
        stale_pyc = "stale-bytecode" if self.stale_pyc_possible(post) else None
        pre_torn = pre["cls"] is not None and not pre["cls"]["complete"]
        if pcls is not None and not pcls["complete"] and not (pre_torn and pcls["hash"] == pre["cls"]["hash"]):
            self.ctx_detail = self.torn_detail([node]) or self.ctx_detail
            self.flag("torn-module", "%s: module path holds an incomplete module afterwards: %s" % (label, pcls["why"]),
                      self.ctx_detail)
        if node.crashed:
            return None
        status, out = node.result
        if status != "ok":
            raise RuntimeError("node task failed: %s" % out)
        self.clock.now = max(self.clock.now, node.end_clock)
        rewrote = node.writes > 0 or bool(out["writer_calls"]) or (
            (post is None) != (pre["data"] is None) or (post is not None and post != pre["data"]))
        if out["status"] != "ok":
            if allow_raise:
                return out
            if pre_torn:
                self.flag("survivor-unloadable", "%s: construct over a torn module file raised %s: %s"
                          % (label, out["exc"][0], out["msg"][:120]), self.ctx_detail)
            else:
                self.flag("survivor-unloadable", "%s: construct raised %s: %s (module before: %s)"
                          % (label, out["exc"][0], out["msg"][:120], _cls_short(pre["cls"])))
            return out
        # staleness rule
        if zone == "must_rewrite" and not rewrote:
            self.flag("rewrite-missed", "%s: module %s was reused although a rewrite was due (source mtime %.3f, module mtime %s)"
                      % (label, _cls_short(pre["cls"]), pre["m"], pre["M"]), why)
        elif zone == "must_reuse" and rewrote:
            self.flag("rewrite-spurious", "%s: module (mtime %.3f, stamp %.3f) is not older than the source (mtime %.3f) but was rewritten"
                      % (label, pre["M"], pre["cls"]["T0"], pre["m"]), "stale-bytecode" if self.stale_pyc_pre(pre) else None)
        if zone == "must_rewrite":
            self.probe("rewrite:" + why)
        elif zone == "must_reuse":
            self.probe("reuse-unchanged")
        else:
            self.probe("either-zone")
        # module_writer contract
        if node.spec["writer"]:
            calls = out["writer_calls"]
            want = 1 if rewrote else 0
            if zone == "must_rewrite" and len(calls) != 1 or zone == "must_reuse" and calls or len(calls) > 1:
                self.flag("writer-args", "%s: module_writer called %d times (zone %s)" % (label, len(calls), zone))
            for (tp, h, path) in calls:
                self.probe("writer-called")
                if tp != "bytes" or path != self.modpath:
                    self.flag("writer-args", "%s: module_writer got (%s, %r), expected (bytes, module path)" % (label, tp, path))
                elif post is not None and hashlib.sha1(post).hexdigest() != h:
                    self.flag("writer-args", "%s: bytes given to module_writer are not what a plain write leaves" % label)
        # what it renders
        if rewrote:
            want_v = pre["v"]
            if pcls is None:
                self.flag("rewrite-missed", "%s: a write happened but no module file exists afterwards" % label, "missing")
            elif pcls["complete"] and pcls["v"] != pre["v"]:
                self.flag("renders-wrong-version", "%s: rewritten module carries v%d, current source is v%d" % (label, pcls["v"], pre["v"]))
        else:
            want_v = pre["cls"]["v"] if pre["cls"] and pre["cls"]["complete"] else pre["v"]
        want_text = expected_text(want_v, self.cfg["encoding"], self.cfg["pad"], node.spec["x"])
        if out["text"] != want_text or out["vtag"] != "v%d" % want_v:
            self.flag("renders-wrong-version", "%s: rendered %r (VTAG %s); the %s module is v%d (%r); bytecode writing %s"
                      % (label, out["text"][:60], out["vtag"], "rewritten" if rewrote else "reused", want_v, want_text[:60],
                         "on" if self.cfg["write_bytecode"] else "off"), stale_pyc)
        if pcls and pcls["complete"] and abs(pcls["T0"] - out["T"]) > 1e-6 and not rewrote:
            self.flag("renders-wrong-version", "%s: template stamp %.6f differs from the reused module's %.6f" % (label, out["T"], pcls["T0"]), stale_pyc)
        # the module it loaded is the module path, never a temp file
        for ev in node.events:
            if ev[2] == "load" and ev[3] != self.world.rel(self.modpath):
                self.flag("outside-module-dir", "%s: loaded %s instead of the module path" % (label, ev[3]))
        return out

    def allowed_hashes(self, pre, nodes):
        allowed = {None}
        if pre["data"] is not None and pre["cls"]["complete"]:
            allowed.add(pre["cls"]["hash"])
        return allowed

    def check_observations(self, pre, nodes, allowed, label):
        """The watched module path as seen by an outside observer at every seam
        point of every node: no file, the complete previous module, or a complete new one."""
        for node in nodes:
            for ev in node.events:
                obs = ev[5]
                if obs is None or obs in allowed:
                    continue
                if obs in self.classify_cache and self.classify_cache[obs]["complete"]:
                    continue
                data = None
                # classify lazily: the observer only kept the hash; re-read if it is still there
                cur = self.read_mod()
                if cur is not None and hashlib.sha1(cur).hexdigest() == obs:
                    if self.classify(cur)["complete"]:
                        continue
                    why = self.classify(cur)["why"]
                else:
                    # transient content that is gone again: complete payloads are known from the write events
                    if obs in self.payload_hashes(nodes):
                        continue
                    why = "transient content seen at %s of %s that is neither the previous module nor a submitted payload" % (ev[2], node.name)
                if pre["cls"] is not None and not pre["cls"]["complete"] and obs == pre["cls"]["hash"]:
                    continue  # torn already before this construct (reported earlier)
                self.ctx_detail = self.torn_detail(nodes, ev) or self.ctx_detail
                self.flag("torn-module", "%s: at seam call %d (%s) of %s the module path held an incomplete module: %s"
                          % (label, ev[1], ev[2], node.name, why), self.ctx_detail)
                return

    def payload_hashes(self, nodes):
        hs = set()
        for n in nodes:
            for ev in n.events:
                if ev[4] is not None and bytes(ev[4]).endswith(TRAILER):
                    hs.add(hashlib.sha1(ev[4]).hexdigest())
        return hs

    def torn_detail(self, nodes, ev=None):
        labels = set()
        fired = set()
        for n in nodes:
            labels.update(e[2] for e in n.events)
            fired.update(k for (k, _l, _p, _o) in getattr(n, "fired", ()))
        if "short-write" in fired or "short-writes" in fired:
            return "short-write"
        if "copy-open" in labels:
            return "copy-fallback"
        if "open-w" in labels:
            return "in-place"
        return None

    def containment(self, nodes, label):
        modrel = self.world.rel(self.moddir)
        for n in nodes:
            for ev in n.events:
                if ev[2] in ("mkdir", "mkstemp", "rename", "replace", "open-w", "copy-open", "write"):
                    p = ev[3]
                    if p and not (p == modrel or p.startswith(modrel + "/")):
                        self.flag("outside-module-dir", "%s: %s on %s, outside module_directory" % (label, ev[2], p))
                        return

    # ---- tails
    def construct_plain(self, label="construct"):
        pre = self.pre_state()
        node = self.spawn_local()
        out = self.check_construct(pre, node, label)
        self.containment([node], label)
        self.note_state(pre, out)
        return node

    def spawn_local(self, faults=(), spec=None):
        spec = spec or self.spec()
        node = procs.spawn("n%d" % self.nodes_run, self.root, node_construct, (spec,), self.clock.now, self.cfg,
                           faults=faults, lockstep=False, watch=self.modpath)
        self.nodes_run += 1
        node.spec = spec
        node.end_clock = self.clock.now
        node.run_to_end()
        for (k, _l, _p, _o) in node.fired:
            self.faults_fired[k] = self.faults_fired.get(k, 0) + 1
        if node.crashed:
            self.faults_fired["crash"] = self.faults_fired.get("crash", 0) + 1
        return node

    def note_state(self, pre, out):
        self.state_hashes.add(stable_hash([self.zone(pre), pre["v"], (pre["cls"] or {}).get("v"),
                                           out and out.get("status")]))

    def snapshot(self):
        snap = self.root + ".snap"
        shutil.rmtree(snap, ignore_errors=True)
        shutil.copytree(self.root, snap, symlinks=True)
        return snap

    def restore(self, snap):
        for name in os.listdir(self.root):
            p = os.path.join(self.root, name)
            if os.path.isdir(p):
                shutil.rmtree(p)
            else:
                os.remove(p)
        for name in os.listdir(snap):
            s = os.path.join(snap, name)
            d = os.path.join(self.root, name)
            if os.path.isdir(s):
                shutil.copytree(s, d, symlinks=True)
            else:
                shutil.copy2(s, d)

    def survivor(self, label):
        """A later Template for the same source, in another process, must load and render correctly."""
        pre = self.pre_state()
        node = self.spawn_local()
        out = self.check_construct(pre, node, label + " -> fresh process")
        if out and out.get("status") == "ok":
            self.probe("survivor-regenerated" if node.writes else "survivor-reused")
        # temp files may be left behind but must never be loaded (checked in check_construct)
        return out

    def tail_crash(self):
        spec = self.spec()
        t0 = self.clock.now
        snap = self.snapshot()
        try:
            pre = self.pre_state()
            dry = self.spawn_local(spec=dict(spec))
            self.check_construct(pre, dry, "dry pass")
            calls = [(ev[1], ev[2]) for ev in dry.events]
            points = []
            for (k, lab) in calls:
                points.append((k, lab, "before"))
                if lab == "line":
                    continue  # dying before a line == dying after the previous one
                points.append((k, lab, "after"))
                if lab in ("write", "copy-write"):
                    points.append((k, lab, "mid"))
            self.crash_points_total = len(points)
            seen_rename = [k for (k, lab) in calls if lab in ("rename", "replace")]
            seen_create = [k for (k, lab) in calls if lab == "mkstemp"]
            seen_close = [k for (k, lab) in calls if lab == "close"]
            for (k, lab, mode) in points:
                self.restore(snap)
                self.clock.now = t0
                pre = self.pre_state()
                node = self.spawn_local(faults=[{"kind": "crash-" + mode, "op": None, "call": None, "nth": k, "arg": 0.5}],
                                        spec=dict(spec))
                label = "crash %s seam call %d (%s)" % (mode, k, lab)
                if not node.crashed:
                    raise RuntimeError("planned %s did not happen (node finished)" % label)
                self.crash_points += 1
                if lab == "mkdir":
                    self.probe("crash:in-mkdir")
                if seen_create and (k < seen_create[0] or (k == seen_create[0] and mode == "before")):
                    self.probe("crash:before-create")
                elif lab == "write":
                    self.probe("crash:during-fill")
                elif seen_close and seen_rename and (seen_close[0] < k < seen_rename[0] or (k == seen_close[0] and mode == "after")
                                                     or (k == seen_rename[0] and mode == "before")):
                    self.probe("crash:between-close-and-move")
                elif seen_rename and (k > seen_rename[0] or (k == seen_rename[0] and mode == "after")):
                    self.probe("crash:after-move")
                self.check_construct(pre, node, label)  # durable state + observations
                self.containment([node], label)
                self.survivor(label)
            self.restore(snap)
            self.clock.now = t0
        finally:
            shutil.rmtree(snap, ignore_errors=True)

    def tail_fault(self):
        pre = self.pre_state()
        node = self.spawn_local(faults=self.trace["faults"])
        kinds = [k for (k, _l, _p, _o) in node.fired]
        label = "construct with %s" % (",".join(kinds) or "no fault fired")
        out = self.check_construct(pre, node, label, allow_raise=bool(kinds))
        self.containment([node], label)
        if out is not None and out.get("status") == "raised":
            if "OSError" in out["exc"]:
                self.probe("fault-raised-cleanly")
            elif kinds:
                self.flag("survivor-unloadable", "%s: constructor raised %s (%s) instead of the injected OSError"
                          % (label, out["exc"][0], out["msg"][:100]), self.ctx_detail)
        self.survivor(label)

    def tail_twice(self):
        spec = self.spec()
        pre = self.pre_state()
        self.v += 1
        new_src = source_bytes(self.v, self.cfg["encoding"], self.cfg["pad"])
        node = procs.spawn("n%d" % self.nodes_run, self.root, node_construct_twice, (spec, new_src, self.modpath), self.clock.now, self.cfg,
                           lockstep=False, watch=self.modpath)
        self.nodes_run += 1
        node.spec = spec
        node.run_to_end()
        if node.crashed:
            raise RuntimeError("twice-node died")
        status, outs = node.result
        if status != "ok":
            raise RuntimeError("node task failed: %s" % outs)
        self.check_observations(pre, [node], self.allowed_hashes(pre, [node]), "two constructs in one process")
        out2 = outs["second"]
        post = self.read_mod()
        try:
            msec = int(os.stat(self.modpath).st_mtime)
            for ev in node.events:
                if ev[4] is not None and bytes(ev[4]).endswith(TRAILER):
                    self.generations.setdefault((len(ev[4]), msec), set()).add(hashlib.sha1(ev[4]).hexdigest())
            if pre["data"] is not None:
                self.generations.setdefault((len(pre["data"]), msec), set()).add(hashlib.sha1(pre["data"]).hexdigest())
        except OSError:
            pass
        pcls = self.classify(post)
        stale_pyc = "stale-bytecode" if self.stale_pyc_possible(post) else None
        label = "second construct in the same process after the source changed (mtime +2 s, clock not advanced)"
        self.probe("same-process-reconstruct")
        if out2["status"] != "ok":
            self.flag("survivor-unloadable", "%s raised %s: %s" % (label, out2["exc"][0], out2["msg"][:100]))
        else:
            want = expected_text(self.v, self.cfg["encoding"], self.cfg["pad"], spec["x"] + "b")
            if out2["vtag"] != "v%d" % self.v or out2["text"] != want:
                self.flag("renders-wrong-version", "%s: rendered %r (VTAG %s); the source is v%d and the module file %s"
                          % (label, out2["text"][:60], out2["vtag"], self.v, _cls_short(pcls)), stale_pyc)
        if pcls is None or not pcls["complete"] or pcls["v"] != self.v:
            self.flag("rewrite-missed", "%s: module file afterwards is %s, source is v%d" % (label, _cls_short(pcls), self.v), "older")
        self.containment([node], label)
        self.survivor(label)

    def tail_multi(self):
        tail = self.trace["tail"]
        nn = tail["nodes"]
        pre = self.pre_state()
        zone, why = self.zone(pre)
        rng = mkrng("sched:%s" % tail["sched_seed"])
        replay = self.trace.get("schedule")
        specs = [self.spec() for _ in range(nn)]
        nodes = []
        for i in range(nn):
            n = procs.spawn("p%d" % i, self.root, node_construct, (specs[i],), self.clock.now, self.cfg,
                            lockstep=True, watch=self.modpath)
            n.spec = specs[i]
            n.end_clock = self.clock.now
            nodes.append(n)
        prio = {n.name: rng.random() for n in nodes}
        change_points = set(rng.sample(range(1, 120), 3)) if tail["strategy"] == "pct" else set()
        crash_at = rng.randrange(1, 40 * nn) if tail.get("crash") else None
        taken = []
        bad = []
        in_write_phase = {}

        def choose(waiting, step):
            if replay is not None:
                if step - 1 < len(replay):
                    name, kind = replay[step - 1]
                    for n in waiting:
                        if n.name == name:
                            return n, kind, 0.5
                    raise RuntimeError("replayed schedule diverged at step %d" % step)
                raise RuntimeError("replayed schedule too short at step %d" % step)
            if tail["strategy"] == "pct":
                if step in change_points:
                    top = max(waiting, key=lambda n: prio[n.name])
                    prio[top.name] = -rng.random()
                node = max(waiting, key=lambda n: prio[n.name])
            else:
                node = waiting[rng.randrange(len(waiting))]
            kind = None
            if crash_at is not None and step == crash_at:
                lab = node.pending[2]
                kind = rng.choice(("crash-before", "crash-after") + (("crash-mid",) if lab in ("write", "copy-write") else ()))
            return node, kind, 0.5

        def on_step(node, msg, kind):
            taken.append([node.name, kind])
            lab = msg[2]
            if lab == "mkstemp":
                in_write_phase[node.name] = True
            elif lab in ("rename", "replace"):
                in_write_phase.pop(node.name, None)
            if len(in_write_phase) >= 2:
                self.probe("multi:two-writers-in-write-phase")
            if lab == "load" and in_write_phase:
                self.probe("multi:reader-loaded-while-writer-midway")
            if kind and kind.startswith("crash"):
                in_write_phase.pop(node.name, None)
                self.faults_fired["crash"] = self.faults_fired.get("crash", 0) + 1
            # driver-side observer after every step
            data = self.read_mod()
            c = self.classify(data)
            if data is not None:
                try:
                    self.note_generation(data, os.stat(self.modpath).st_mtime)
                except OSError:
                    pass
            if c is not None and not c["complete"] and not bad:
                if not (pre["cls"] is not None and not pre["cls"]["complete"] and c["hash"] == pre["cls"]["hash"]):
                    bad.append("after step %d (%s %s of %s): %s" % (len(taken), kind or "go", lab, node.name, c["why"]))

        procs.run_lockstep(nodes, choose, self.clock, self.cfg["auto_tick"], on_step)
        for n in nodes:
            while not n.dead:
                n.next_message()
        self.schedule_taken = taken
        self.interleavings.add(stable_hash(taken))
        if bad:
            self.ctx_detail = self.torn_detail(nodes) or self.ctx_detail
            self.flag("torn-module", "multi-process round: " + bad[0], self.ctx_detail)
        for n in nodes:
            if n.crashed:
                continue
            status, out = n.result
            if status != "ok":
                raise RuntimeError("node task failed: %s" % out)
            if out["status"] != "ok":
                self.flag("survivor-unloadable", "multi-process round (%d nodes): %s raised %s: %s"
                          % (nn, n.name, out["exc"][0], out["msg"][:120]))
                continue
            ok_versions = set()
            if zone in ("must_rewrite", "either"):
                ok_versions.add(pre["v"])
            if zone in ("must_reuse", "either") and pre["cls"] and pre["cls"]["complete"]:
                ok_versions.add(pre["cls"]["v"])
            got = out["vtag"]
            if got not in {"v%d" % v for v in ok_versions} or out["text"] != expected_text(
                    int(got[1:]), self.cfg["encoding"], self.cfg["pad"], n.spec["x"]):
                self.flag("renders-wrong-version", "multi-process round (%d nodes, zone %s): %s rendered %r (VTAG %s), admissible versions %s"
                          % (nn, zone, n.name, out["text"][:50], got, sorted(ok_versions)),
                          "stale-bytecode" if (self.stale_pyc_possible(self.read_mod()) or (
                              self.cfg["write_bytecode"] and any(len(v) > 1 for v in self.generations.values()))) else None)
        self.containment(nodes, "multi-process round")
        post = self.classify(self.read_mod())
        if post is not None and not post["complete"] and not bad:
            self.flag("torn-module", "multi-process round: module path incomplete at the end: %s" % post["why"], self.torn_detail(nodes))
        self.survivor("multi-process round")


def _cls_short(c):
    if c is None:
        return "missing"
    if not c["complete"]:
        return "torn"
    return "v%d/stamp %.3f/magic %d" % (c["v"], c["T0"], c["magic"])


def execute(trace, root):
    d = Driver(trace, root)
    ops = trace["ops"]
    for op in ops[:-1]:
        d.do(op)
    kind = trace["tail"]["kind"]
    if kind == "plain":
        d.construct_plain()
    elif kind == "crash":
        d.tail_crash()
    elif kind == "fault":
        d.tail_fault()
    elif kind == "twice":
        d.tail_twice()
    else:
        d.tail_multi()
    seen = set()
    violations = []
    for sig, msg in d.viol:
        if sig in seen:
            continue
        seen.add(sig)
        violations.append({"signature": sig, "message": msg})
    d.log.add("end", sorted(seen), d.crash_points)
    nontrivial = kind != "plain" or any(o[0] in ("modify", "delete_module", "replace_magic") for o in ops)
    out = {
        "violations": violations,
        "digest": d.log.digest(),
        "counters": {"faults_fired": d.faults_fired, "probes": d.probes},
        "hashes": {"model_states": list(d.state_hashes), "interleavings": list(d.interleavings)},
        "totals": {"ops": len(ops), "process_nodes": d.nodes_run, "crash_points_enumerated": d.crash_points,
                   "crash_points_total": d.crash_points_total, "tail_" + kind: 1,
                   "fault_free_runs": 1 if kind == "plain" else 0},
        "sim_seconds": d.clock.covered,
        "nontrivial": nontrivial,
        "case_hash": stable_hash([trace["config"], ops, trace["tail"], trace["faults"]]),
        "sample": {"config": trace["config"], "ops": ops, "tail": trace["tail"], "faults": trace["faults"],
                   "crash_points": d.crash_points, "schedule_head": (d.schedule_taken or [])[:12]},
    }
    if d.schedule_taken is not None and trace.get("schedule") is None:
        out["trace_patch"] = {"schedule": d.schedule_taken}
    return out


def evidence_extra(agg):
    return {"crash_points_enumerated": agg.totals.get("crash_points_enumerated", 0),
            "crash_points_total": agg.totals.get("crash_points_total", 0),
            "process_nodes_run": agg.totals.get("process_nodes", 0)}
