"""C13 engine: an exception at any point of a render leaves the render state
consistent.  Crash point = a call out of generated code (probe expressions,
filter callables, decorator wrappers, argument expressions, __next__ of
iterables, __str__ of substituted values, cache creation functions, the lookup
of included/inherited templates, write() of a caller-supplied sink); every
dynamic invocation found by a dry render is made to raise in turn (cap per
program), under every handler placement, and the result is compared with the
reference interpreter models.render_model.Interp."""

import copy
import re
import sys

from vsim import c13rt, simcache
from vsim.core import EventLog, stable_hash
from models.render_model import Interp, ModelBoom

NAME = "c13_unwind"
PROPERTY = "C13"
SHRINK_LISTS = ()

PLACEMENTS = ("none", "error_handler", "format_exceptions", "render_context", "include_handler",
              "error_handler_false", "include_handler_false", "none_base", "error_handler_false_base", "error_handler_base",
              "include_handler_inc_only", "include_handler_main_only")
# handlers declining, and raises that are not an Exception (SystemExit-like): a sample of the raise points
SAMPLED_PLACEMENTS = {"error_handler_false": 12, "include_handler_false": 12, "none_base": 6, "error_handler_false_base": 8,
                      "error_handler_base": 6, "include_handler_inc_only": 10, "include_handler_main_only": 10}
IMPORT = "<%! from vsim.c13rt import p, S, flt, dec, it, Boom, sc %>"

RULE = ("one case = one generated template program (top-level defs that are plain / buffered / filtered / cached / decorated / "
        "taking an argument / caller-aware, nested defs, calls by name / self. / capture(), <%call> with content, % for over "
        "call-out iterators with loop.index witnesses, named / anonymous / filtered blocks, <%text filter>, <%include> of further "
        "templates, optional 2-level inheritance with an overridden block, % try/% except at arbitrary ancestors). A dry render "
        "lists every dynamic call-out invocation; each one (cap 80 per program) is made to raise in turn under each of 5 handler "
        "placements {none, error_handler->True, format_exceptions, caller of render_context on a caller-owned Context, "
        "include_error_handler->True}, plus failing writes of the caller's sink. Non-trivial = the program has at least 3 call-outs "
        "and one construct that must be unwound (buffer, loop, call-with-content, include or inheritance); distinct = hash of the program.")
COMPONENTS = {
    "real": ["mako.codegen (all emitted try/finally pairs)", "mako.runtime (Context, CallerStack, LoopStack, capture, _include_file, "
             "_exec_template, _render_error)", "mako.cache.Cache", "mako.lookup.TemplateLookup.put_string", "Beaker memory backend (half of the programs)"],
    "simulated": ["which invocation of which call-out raises (fault plan over call-out id x occurrence)",
                  "failing write() of the caller-supplied output sink"],
    "stub": ["lock-free dict cache backend 'simdict' (other half of the programs)"],
}
ASSUMPTIONS = (
    "asynchronous exceptions between two bytecodes are not injected: the property quantifies over raise points of code a render invokes",
    "the reference interpreter (models/render_model.py) is trusted; it is validated on every program by requiring the fault-free render to equal it",
    "single-threaded; PYTHONHASHSEED pinned to 0",
)
EXPECTED_PROBES = ("raised-in:def", "raised-in:def-buffered", "raised-in:def-filtered", "raised-in:def-cached", "raised-in:def-nested",
                   "raised-in:for", "raised-in:ccall", "raised-in:caller-body", "raised-in:capture", "raised-in:textfilter",
                   "raised-in:block", "raised-in:block-filtered", "raised-in:include", "raised-in:try", "raised-in:base-body",
                   "handled:try", "handled:include_error_handler", "handled:error_handler", "handled:render_context-caller",
                   "unhandled:identity-checked", "unhandled:error-page", "sink-write-failed", "cache-creation-raised",
                   "namespace-def-called", "prologue-raised", "get_def-render-faulted")


# ---------------------------------------------------------------- generator
class Gen:
    def __init__(self, rng):
        self.rng = rng
        self.nid = 0
        self.nblock = 0
        self.nloop = 0
        self.lib = []
        self.ninc = 0

    def cid(self):
        self.nid += 1
        return self.nid

    def gen_def(self, name, callable_defs, depth, nested_ok=True, aware=False):
        r = self.rng
        d = {"name": name, "buffered": False, "filter": None, "cached": False, "decorator": None, "aware": aware,
             "arg": False, "nested": [], "body": []}
        if aware:
            style = r.choice(("plain", "plain", "buffered", "filtered", "decorated", "buffered+filtered"))
        else:
            style = r.choice(("plain", "plain", "buffered", "filtered", "cached", "decorated", "buffered+filtered", "arg", "cached+buffered"))
        if "buffered" in style:
            d["buffered"] = True
        if "filtered" in style:
            d["filter"] = self.cid()
        if "cached" in style:
            d["cached"] = True
        if style == "decorated":
            d["decorator"] = self.cid()
        if style == "arg":
            d["arg"] = True
        avail = list(callable_defs)
        if nested_ok and depth < 2 and r.random() < 0.35:
            nd = self.gen_def(name + "n", avail, depth + 1, nested_ok=False)
            nd["is_nested"] = True
            d["nested"].append(nd)
            avail = avail + [nd]
        d["body"] = self.gen_body(avail, depth + 1, in_loop=False, aware=aware, blocks=False, includes=False, must_call=d["nested"],
                                  allow_self=not name.startswith(("l", "i")))
        return d

    def gen_body(self, defs, depth, in_loop, aware, blocks, includes, must_call=(), allow_self=True, nmax=None, ccall_ok=True):
        r = self.rng
        out = []
        n = r.randint(1, nmax or (5 if depth <= 1 else 3))
        pending = list(must_call)
        for _ in range(n):
            x = r.random()
            if pending and r.random() < 0.6:
                d = pending.pop()
                out.append(self.call_node(d, allow_self=False))
            elif self.lib and allow_self and r.random() < 0.12:
                d = r.choice(self.lib)
                if d.get("aware"):
                    if ccall_ok and depth < 3:
                        out.append({"t": "ccall", "d": d["name"], "ns": "lib",
                                    "body": self.gen_body([e for e in defs if not e.get("aware") and not e.get("is_nested")], depth + 2, False, False,
                                                          False, False, allow_self=allow_self, nmax=3, ccall_ok=False)})
                else:
                    out.append({"t": "call", "d": d["name"], "via": "ns", "arg": self.cid() if d.get("arg") else None})
            elif x < 0.05:
                out.append({"t": "callerflag"})
            elif x < 0.08:
                out.append({"t": "sc", "i": self.cid()})
            elif x < 0.16:
                out.append({"t": "text", "s": r.choice("abcdefgh") + str(r.randint(0, 9))})
            elif x < 0.34:
                out.append({"t": "probe", "i": self.cid()})
            elif x < 0.39:
                out.append({"t": "str", "i": self.cid()})
            elif x < 0.56 and defs:
                d = r.choice(defs)
                if d.get("aware") and ccall_ok and depth < 3:
                    out.append({"t": "ccall", "d": d["name"],
                                "body": self.gen_body([e for e in defs if not e.get("aware") and not e.get("is_nested")], depth + 2, False, False,
                                                      False, False, allow_self=allow_self, nmax=3, ccall_ok=False)})
                elif not d.get("aware"):
                    out.append(self.call_node(d, allow_self))
            elif x < 0.66 and depth < 3:
                self.nloop += 1
                out.append({"t": "for", "c": self.cid(), "i": self.cid(), "n": r.choice((1, 2, 2, 3)), "v": self.nloop,
                            "body": self.gen_body(defs, depth + 1, True, aware, False, includes, allow_self=allow_self, nmax=3, ccall_ok=ccall_ok)})
            elif x < 0.71 and in_loop:
                out.append({"t": "loopidx"})
            elif x < 0.83 and depth < 3:
                out.append({"t": "try", "exc": r.choice(("all", "all", "ctx", "ctx_tuple", "ctx_as", "bare_all")),
                            "body": self.gen_body(defs, depth + 1, in_loop, aware, blocks and depth < 1, includes, allow_self=allow_self, nmax=3, ccall_ok=ccall_ok),
                            "handler": [{"t": "text", "s": "H%d" % self.cid()}]})
                # witnesses after an abandoned construct
                if in_loop:
                    out.append({"t": "loopidx"})
                if aware:
                    out.append({"t": "callerbody"})
            elif x < 0.87:
                out.append({"t": "textf", "i": self.cid(), "s": "raw" + str(r.randint(0, 9))})
            elif x < 0.92 and aware:
                out.append({"t": "callerbody"})
            elif x < 0.96 and blocks and not in_loop:
                self.nblock += 1
                named = r.random() < 0.6
                out.append({"t": "block", "name": ("b%d" % self.nblock) if named else None,
                            "f": self.cid() if r.random() < 0.4 else None,
                            "body": self.gen_body([e for e in defs if not e.get("aware") and not e.get("is_nested")], depth + 2, False, False, False, False,
                                                  allow_self=allow_self, nmax=3, ccall_ok=False)})
            elif includes and self.ninc:
                out.append({"t": "include", "k": r.randrange(self.ninc)})
            else:
                out.append({"t": "text", "s": "t" + str(r.randint(0, 9))})
        for d in pending:
            out.append(self.call_node(d, allow_self=False))
        return out

    def call_node(self, d, allow_self):
        r = self.rng
        via = "plain"
        if not d.get("is_nested") and allow_self and r.random() < 0.2:
            via = "self"
        if not d.get("buffered") and not d.get("cached") and r.random() < 0.2:
            via = "capture"
        return {"t": "call", "d": d["name"], "via": via, "arg": self.cid() if d.get("arg") else None}

    def program(self):
        r = self.rng
        self.ninc = r.choice((0, 0, 1, 2))
        incs = []
        for k in range(self.ninc):
            idefs = []
            if r.random() < 0.5:
                idefs.append(self.gen_def("i%dd" % k, [], 1))
            incs.append({"lookup": self.cid(), "defs": idefs,
                         "body": self.gen_body(idefs, 1, False, False, False, False, allow_self=False, nmax=4)})
        self.lib = []
        if r.random() < 0.4:
            for j in range(r.randint(1, 3)):
                d = self.gen_def("l%d" % (j + 1), [e for e in self.lib if not e.get("aware")], 1, aware=r.random() < 0.35)
                d["lib"] = True
                self.lib.append(d)
        defs = []
        for j in range(r.randint(1, 4)):
            aware = r.random() < 0.3
            # defs may call defs created before them (no recursion)
            defs.append(self.gen_def("d%d" % (j + 1), [e for e in defs if not e.get("aware")], 1, aware=aware))
        plain_defs = [d for d in defs if not d.get("aware") and not d.get("cached")]
        if plain_defs and r.random() < 0.3:
            r.choice(plain_defs)["undef"] = True
        body = self.gen_body(defs, 0, False, False, True, True, nmax=7)
        prog = {"defs": defs, "body": body, "incs": incs, "base": None, "child_hd": None, "lib": self.lib,
                "cache_impl": r.choice(("simdict", "beaker"))}
        if r.random() < 0.3:
            prog["base"] = {"lookup": self.cid(),
                            "pre": self.gen_body([], 1, False, False, False, False, allow_self=False, nmax=2),
                            "hd_body": self.gen_body([], 2, False, False, False, False, allow_self=False, nmax=2),
                            "post": self.gen_body([], 1, False, False, False, False, allow_self=False, nmax=3)}
            if r.random() < 0.5:
                prog["child_hd"] = self.gen_body([e for e in defs if not e.get("aware")], 2, False, False, False, False, nmax=2, ccall_ok=False)
        return prog


def generate(rng, tier, idx, force=None):
    g = Gen(rng)
    prog = g.program()
    return {"engine": NAME, "property": PROPERTY, "prog": prog, "placements": list(PLACEMENTS), "in_except": rng.random() < 0.5,
            "max_faults": 80 if tier == "quick" else 160, "pick_seed": rng.getrandbits(32)}


def count_nodes(nodes):
    n = 0
    for x in nodes:
        n += 1
        for key in ("body", "handler"):
            if key in x:
                n += count_nodes(x[key])
    return n


def trace_size(trace):
    p = trace["prog"]
    n = count_nodes(p["body"])
    for d in list(p["defs"]) + list(p.get("lib", ())):
        n += 2 + count_nodes(d["body"]) + sum(2 + count_nodes(nd["body"]) for nd in d["nested"])
    for inc in p["incs"]:
        n += 3 + count_nodes(inc["body"]) + sum(2 + count_nodes(d["body"]) for d in inc["defs"])
    if p.get("base"):
        n += 5 + count_nodes(p["base"]["pre"]) + count_nodes(p["base"]["post"]) + count_nodes(p["base"]["hd_body"])
    if p.get("child_hd"):
        n += count_nodes(p["child_hd"])
    return n


# -------------------------------------------------------------- emission
def emit_nodes(nodes):
    return "".join(emit_node(n) for n in nodes)


def emit_node(n):
    t = n["t"]
    if t == "text":
        return n["s"]
    if t == "probe":
        return "${p(%d)}" % n["i"]
    if t == "str":
        return "${S(%d)}" % n["i"]
    if t == "loopidx":
        return "i${loop.index}"
    if t == "callerbody":
        return "${caller.body()}"
    if t == "callerflag":
        return "${'C1' if caller else 'C0'}"
    if t == "sc":
        return "${sc(context, %d)}" % n["i"]
    if t == "textf":
        return '<%%text filter="flt(%d)">%s</%%text>' % (n["i"], n["s"])
    if t == "for":
        return "\\\n%% for x%d in it(%d, %d, %s):\n%s\\\n%% endfor\n" % (n["v"], n["i"], n["n"], n.get("c"), emit_nodes(n["body"]))
    if t == "try":
        # the class of a handler may come from the render data (boomcls), with or without an `as` target
        clause = {"all": "Exception as e", "bare_all": "Exception", "ctx": "boomcls", "ctx_tuple": "(LookupError, boomcls)",
                  "ctx_as": "boomcls as e"}[n.get("exc", "all")]
        return "\\\n% try:\n" + emit_nodes(n["body"]) + "\\\n% except " + clause + ":\n" + emit_nodes(n["handler"]) + "\\\n% endtry\n"
    if t == "call":
        args = ("p(%d)" % n["arg"]) if n.get("arg") is not None else ""
        if n["via"] == "capture":
            return "${capture(%s%s)}" % (n["d"], (", " + args) if args else "")
        if n["via"] == "self":
            return "${self.%s(%s)}" % (n["d"], args)
        if n["via"] == "ns":
            return "${lib.%s(%s)}" % (n["d"], args)
        return "${%s(%s)}" % (n["d"], args)
    if t == "ccall":
        if n.get("ns"):
            return "<%%lib:%s>%s</%%lib:%s>" % (n["d"], emit_nodes(n["body"]), n["d"])
        return '<%%call expr="%s()">%s</%%call>' % (n["d"], emit_nodes(n["body"]))
    if t == "block":
        attrs = ""
        if n["name"]:
            attrs += ' name="%s"' % n["name"]
        if n.get("f"):
            attrs += ' filter="flt(%d)"' % n["f"]
        # anonymous blocks are named after their line number: one per line
        return "%s<%%block%s>%s</%%block>" % ("" if n["name"] else "\\\n", attrs, emit_nodes(n["body"]))
    if t == "include":
        return '<%%include file="/inc%d.html"/>' % n["k"]
    raise ValueError(t)


def emit_def(d):
    attrs = 'name="%s(%s)"' % (d["name"], "a" if d.get("arg") else "")
    if d.get("buffered"):
        attrs += ' buffered="True"'
    if d.get("filter") is not None:
        attrs += ' filter="flt(%d)"' % d["filter"]
    if d.get("cached"):
        attrs += ' cached="True"'
    if d.get("decorator") is not None:
        attrs += ' decorator="dec(%d)"' % d["decorator"]
    inner = "".join(emit_def(nd) for nd in d.get("nested", ()))
    head = "(${a})" if d.get("arg") else ""
    if d.get("undef"):
        head += "${zz}"
    return "<%%def %s>%s%s%s</%%def>" % (attrs, inner, head, emit_nodes(d["body"]))


def emit_program(prog):
    """-> {uri: template text}"""
    out = {}
    main = IMPORT
    if prog.get("lib"):
        main += '<%namespace name="lib" file="/lib.html"/>'
        out["/lib.html"] = IMPORT + "".join(emit_def(d) for d in prog["lib"])
    if prog.get("base"):
        main += '<%inherit file="/base.html"/>'
    main += "".join(emit_def(d) for d in prog["defs"])
    if prog.get("child_hd") is not None:
        main += '<%block name="hd">' + emit_nodes(prog["child_hd"]) + "</%block>"
    main += emit_nodes(prog["body"])
    out["/main.html"] = main
    for k, inc in enumerate(prog["incs"]):
        out["/inc%d.html" % k] = IMPORT + "".join(emit_def(d) for d in inc["defs"]) + emit_nodes(inc["body"])
    if prog.get("base"):
        b = prog["base"]
        out["/base.html"] = (IMPORT + emit_nodes(b["pre"]) + '<%block name="hd">' + emit_nodes(b["hd_body"]) + "</%block>"
                             + "[${next.body()}]" + emit_nodes(b["post"]))
    out["/t2.html"] = '<%def name="q()">${"hascaller" if caller else "nocaller"}</%def>T2<${q()}>'
    return out


def cached_defs(prog):
    """(template uri, kind, name) for every cached def, to invalidate through the public API between runs"""
    out = []

    def walk(uri, defs):
        for d in defs:
            if d.get("cached"):
                out.append((uri, "closure" if d.get("is_nested") else "def", d["name"]))
            walk(uri, d.get("nested", ()))

    walk("/main.html", prog["defs"])
    walk("/lib.html", prog.get("lib", ()))
    for k, inc in enumerate(prog["incs"]):
        walk("/inc%d.html" % k, inc["defs"])
    return out


# ---------------------------------------------------------------- harness
class SinkError(Exception):
    pass


class Sink:
    """caller-supplied output buffer; fails on its j-th write when asked to"""

    def __init__(self, fail_at=None):
        self.parts = []
        self.n = 0
        self.fail_at = fail_at
        self.failed = None

    def write(self, s):
        self.n += 1
        if self.fail_at is not None and self.n == self.fail_at:
            self.failed = SinkError("sink write %d failed" % self.n)
            raise self.failed
        self.parts.append(s)

    def getvalue(self):
        return "".join(self.parts)


class Harness:
    def __init__(self, trace):
        self.trace = trace
        self.prog = trace["prog"]
        self.texts = emit_program(self.prog)
        self.viol = []
        self.probes = {}
        self.faults_fired = {}
        self.log = EventLog()
        self.lookups = {}
        self.model_mismatch = None
        self.current = None  # {"placement":..., "fault":[i,k]} | {"placement":..., "sink": j}
        self.renders = 0
        simcache.register()
        self.lookup_ids = {}
        for k, inc in enumerate(self.prog["incs"]):
            self.lookup_ids["/inc%d.html" % k] = inc["lookup"]
        if self.prog.get("base"):
            self.lookup_ids["/base.html"] = self.prog["base"]["lookup"]
        self.cached = cached_defs(self.prog)

    def probe(self, name, n=1):
        self.probes[name] = self.probes.get(name, 0) + n

    def flag(self, cls, msg, detail=None):
        self.viol.append(("C13/" + cls + ((":" + detail) if detail else ""), msg, dict(self.current) if self.current else None))

    def lookup_for(self, placement):
        lk = self.lookups.get(placement)
        if lk is not None:
            return lk
        from mako.lookup import TemplateLookup

        kw = {"cache_impl": self.prog["cache_impl"], "strict_undefined": True}
        if self.prog["cache_impl"] == "beaker":
            kw["cache_args"] = {"type": "memory"}
        if placement in ("error_handler", "error_handler_base"):
            def handler(context, error):
                context.write("[EH]")
                return True
            kw["error_handler"] = handler
        elif placement == "format_exceptions":
            kw["format_exceptions"] = True
        elif placement == "include_handler":
            kw["include_error_handler"] = lambda context, error: True
        elif placement in ("error_handler_false", "error_handler_false_base"):
            # declines by a falsy result that is not False: a handler that forgot its return statement
            kw["error_handler"] = (lambda context, error: False) if placement.endswith("_base") else (lambda context, error: None)
        elif placement == "include_handler_false":
            kw["include_error_handler"] = lambda context, error: None
        lk = TemplateLookup(**kw)
        accept = lambda context, error: True
        for uri, text in self.texts.items():
            # the include_error_handler that counts is the INCLUDED template's own
            if placement == "include_handler_inc_only" and uri.startswith("/inc"):
                from mako.template import Template as _T

                lk.put_template(uri, _T(text, uri=uri, lookup=lk, include_error_handler=accept, **kw))
            elif placement == "include_handler_main_only" and not uri.startswith("/inc"):
                from mako.template import Template as _T

                lk.put_template(uri, _T(text, uri=uri, lookup=lk, include_error_handler=accept, **kw))
            else:
                lk.put_string(uri, text)
        real_get = lk.get_template
        ids = self.lookup_ids

        def get_template(uri):
            if uri in ids:
                c13rt.callout(ids[uri])
            return real_get(uri)

        lk.get_template = get_template
        self.lookups[placement] = (lk, real_get)
        return self.lookups[placement]

    def reset_caches(self, real_get):
        for (uri, kind, name) in self.cached:
            t = real_get(uri)
            if kind == "def":
                t.cache.invalidate_def(name)
            else:
                t.cache.invalidate_closure(name)

    # ---- one render on the real code
    def real_render(self, placement, fault, sink_fail=None, undef=False):
        if self.trace.get("in_except"):
            # a render started while another exception is being handled must behave the same
            try:
                raise LookupError("unrelated exception being handled by the caller")
            except LookupError:
                return self._real_render(placement, fault, sink_fail, undef)
        return self._real_render(placement, fault, sink_fail, undef)

    def _real_render(self, placement, fault, sink_fail=None, undef=False):
        data = {"boomcls": c13rt.Boom} if undef else {"zz": "ZZ", "boomcls": c13rt.Boom}
        """-> dict(status=ok|raised, text=..., exc=...) plus state observations for render_context"""
        lk, real_get = self.lookup_for(placement)
        self.reset_caches(real_get)
        t = real_get("/main.html")
        c13rt.ST.reset(fault)
        self.renders += 1
        out = {}
        if placement == "render_context":
            from mako.runtime import Context

            sink = Sink(sink_fail)
            ctx = Context(sink, **data)
            try:
                t.render_context(ctx)
                out["status"] = "ok"
            except Exception as e:
                out["status"] = "raised"
                out["exc"] = e
            out["sink"] = sink
            out["writes_main"] = sink.n
            out["ctx"] = ctx
            out["buffer_depth"] = len(ctx._buffer_stack)
            out["top_is_sink"] = ctx._buffer_stack[0] is sink if ctx._buffer_stack else False
            out["caller_depth"] = len(ctx.caller_stack)
            out["nextcaller"] = ctx.caller_stack.nextcaller
            # keep using the same context: a direct write, then another template
            out["order"] = list(c13rt.ST.order)
            c13rt.ST.reset(None)
            sink.fail_at = None
            try:
                ctx.write("|W|")
                real_get("/t2.html").render_context(ctx)
                out["after"] = "ok"
            except Exception as e:
                out["after"] = "raised %s: %s" % (type(e).__name__, e)
            out["text"] = sink.getvalue()
        else:
            try:
                out["text"] = t.render(**data)
                out["status"] = "ok"
            except (Exception, c13rt.BoomBase) as e:
                out["status"] = "raised"
                out["exc"] = e
        out["raised_obj"] = c13rt.ST.raised if placement != "render_context" else out.get("exc")
        out.setdefault("order", list(c13rt.ST.order))
        # the Template can be rendered again with correct results
        c13rt.ST.reset(None)
        try:
            out["second"] = t.render(zz="ZZ", boomcls=c13rt.Boom) if placement != "render_context" else self._second_ctx(t)
        except Exception as e:
            out["second"] = "raised %s: %s" % (type(e).__name__, str(e)[:100])
        return out

    def _second_ctx(self, t):
        from mako.runtime import Context

        s = Sink()
        t.render_context(Context(s, zz="ZZ", boomcls=c13rt.Boom))
        return s.getvalue()

    # ---- the enumeration
    def run(self):
        prog = self.prog
        only = self.trace.get("only")
        m0 = Interp(prog)
        r0 = m0.render()
        assert r0[0] == "ok"
        fault_free = r0[1]
        dyn = list(m0.order)
        if m0.ns_calls:
            self.probe("namespace-def-called", m0.ns_calls)
        # validate the model and the translation on the fault-free render, on every placement
        for pl in self.trace["placements"]:
            if only and only["placement"] != pl:
                continue
            real = self.real_render(pl, None)
            want = fault_free + ("|W|T2<nocaller>" if pl == "render_context" else "")
            if real["status"] != "ok" or real["text"] != want or real["order"] != dyn:
                self.model_mismatch = ("fault-free render under placement %s differs from the reference interpreter: real %r / %r, model %r; "
                                       "call-out order equal: %s" % (pl, real["status"], real.get("text", real.get("exc")), want, real["order"] == dyn))
                return
        points = dyn
        cap = self.trace["max_faults"]
        if len(points) > cap:
            import random

            rr = random.Random("pick:%s" % self.trace["pick_seed"])
            points = sorted(rr.sample(points, cap))
        self.points_total = len(dyn)
        self.points_done = 0
        for pl in self.trace["placements"]:
            pts = points
            if pl in SAMPLED_PLACEMENTS and len(points) > SAMPLED_PLACEMENTS[pl] and not only:
                import random

                pts = sorted(random.Random("pl:%s:%s" % (pl, self.trace["pick_seed"])).sample(points, SAMPLED_PLACEMENTS[pl]))
            for fault in pts:
                if only and (only["placement"] != pl or list(only.get("fault") or ()) != list(fault)):
                    continue
                self.check_fault(pl, fault, fault_free)
                self.points_done += 1
        # the prologue of a marked def fails (strict_undefined name missing from the context)
        if any(d.get("undef") for d in prog["defs"]):
            for pl in ("none", "error_handler", "render_context", "error_handler_false"):
                if pl not in self.trace["placements"]:
                    continue
                if only and (only["placement"] != pl or not only.get("undef")):
                    continue
                self.check_undef(pl, fault_free)
        # a single def rendered through get_def(name).render(): the Template's handlers apply there too
        dn = self.getdef_target()
        if dn is not None:
            md = Interp(prog)
            rd = md.render_def(dn)
            if rd[0] == "ok" and md.order:
                real = self.real_render_def("none", None, dn)
                if real["status"] != "ok" or real["text"] != rd[1] or real["order"] != list(md.order):
                    self.model_mismatch = ("fault-free get_def(%r).render() differs from the reference interpreter: real %r / %r, model %r"
                                           % (dn, real["status"], real.get("text", real.get("exc")), rd[1]))
                    return
                dpts = list(md.order)
                if len(dpts) > 10 and not only:
                    import random

                    dpts = sorted(random.Random("gd:%s" % self.trace["pick_seed"]).sample(dpts, 10))
                for pl in ("none", "error_handler", "format_exceptions"):
                    for fault in dpts:
                        if only and (only["placement"] != "getdef_" + pl or list(only.get("fault") or ()) != list(fault)):
                            continue
                        self.check_def_fault(pl, fault, dn)
        # failing writes of the caller's sink (render_context placement only)
        if "render_context" in self.trace["placements"]:
            real0 = self.real_render("render_context", None)
            js = list(range(1, real0["writes_main"] + 1))
            if len(js) > 12:
                import random

                js = sorted(random.Random("sink:%s" % self.trace["pick_seed"]).sample(js, 12))
            for j in js:
                if only and (only["placement"] != "render_context" or only.get("sink") != j):
                    continue
                self.check_sink_fault(j, fault_free)

    def check_fault(self, pl, fault, fault_free):
        prog = self.prog
        fault = tuple(fault[:2]) + (("base",) if pl.endswith("_base") else ())
        self.current = {"placement": pl, "fault": list(fault[:2])}
        m = Interp(prog, fault=fault, include_handler=(pl in ("include_handler", "include_handler_inc_only")))
        mr = m.render()
        real = self.real_render(pl, fault)
        where = m.raised_in or "?"
        self.probe("raised-in:" + where)
        self.faults_fired["raise@callout"] = self.faults_fired.get("raise@callout", 0) + 1
        if where == "def-cached":
            self.probe("cache-creation-raised")
        label = where  # the construct abandoned at the raise point (the placement is in the message)
        # the error page quotes generated-module line numbers, which vary with the hash seed: log its presence only
        self.log.add("fault", pl, list(fault), real["status"],
                     ("<error page %s>" % ("Boom" in str(real.get("text")))) if pl == "format_exceptions" and where != "?" and real["status"] == "ok"
                     and str(real.get("text", "")).lstrip().startswith(("<", "b'")) else real.get("text"))
        fdesc = "call-out %d (occurrence %d) raising inside %s, handler placement %s" % (fault[0], fault[1], where, pl)
        if mr[0] == "ok":
            # handled inside the templates (a % try, or include_error_handler)
            self.probe("handled:" + (m.handled_by or "?"))
            want = mr[1] + ("|W|T2<nocaller>" if pl == "render_context" else "")
            if real["status"] != "ok" or real["text"] != want:
                self.flag("output-mismatch", "%s: rendered %s, the reference interpreter gives %r"
                          % (fdesc, repr(real["text"]) if real["status"] == "ok" else "raised %r" % real.get("exc"), want), label)
        else:
            boom, partial = mr[1], mr[2]
            if where == "top" and pl in ("error_handler", "format_exceptions", "error_handler_base"):
                # the inherited template could not be located: raised while the inheritance chain is set up,
                # before any template code runs; the property's handler clauses speak of raise points of a render
                pass
            elif pl in ("none", "include_handler", "error_handler_false", "include_handler_false", "none_base", "error_handler_false_base",
                        "include_handler_inc_only", "include_handler_main_only"):
                if real["status"] != "raised" or real["exc"] is not c13rt_raised(real) or (
                        pl.endswith("_base") and getattr(real["exc"], "code", None) != 7):
                    self.flag("exception-identity", "%s: expected the original exception object to propagate, got %s"
                              % (fdesc, ("text %r" % real["text"]) if real["status"] == "ok" else repr(real.get("exc"))), label)
                else:
                    self.probe("unhandled:identity-checked")
            elif pl in ("error_handler", "error_handler_base"):
                self.probe("handled:error_handler")
                want = partial + "[EH]"
                if real["status"] != "ok" or real["text"] != want:
                    self.flag("output-mismatch", "%s: with an error_handler returning True render gave %s; text written directly before the "
                              "exception plus the handler's own write is %r"
                              % (fdesc, repr(real["text"]) if real["status"] == "ok" else "raised %r" % real.get("exc"), want), label)
            elif pl == "format_exceptions":
                if isinstance(real.get("text"), bytes):
                    real["text"] = real["text"].decode("utf-8", "replace")
                if real["status"] != "ok" or "Boom" not in real["text"] or ("boom(%s,%d)" % tuple(fault[:2])) not in real["text"]:
                    self.flag("exception-identity", "%s: format_exceptions should return an error page naming the exception, got %s"
                              % (fdesc, (repr(real["text"][:80])) if real["status"] == "ok" else "raised %r" % real.get("exc")), label)
                else:
                    self.probe("unhandled:error-page")
            elif pl == "render_context":
                self.probe("handled:render_context-caller")
                if real["status"] != "raised" or real["exc"] is not real["raised_obj"] or not isinstance(real["exc"], c13rt.Boom):
                    self.flag("exception-identity", "%s: render_context should raise the original exception, got %r" % (fdesc, real.get("exc")), label)
                self.check_context_state(real, partial, fdesc, label)
        again = Interp(prog, fault=None, cache=m.cache, include_handler=(pl in ("include_handler", "include_handler_inc_only"))).render()
        if real["second"] != again[1]:
            self.flag("second-render", "%s: rendering the same Template again gave %r, expected %r"
                      % (fdesc, real["second"], again[1]), label)

    def getdef_target(self):
        """the first top-level def of the main template that can be rendered on its own: no required argument, not
        caller-aware, not decorated (render() hands a **kw-accepting wrapper the whole render data as keyword arguments),
        writes in place (a buffered def RETURNS its text, which get_def().render() discards)"""
        if self.prog.get("base"):
            return None
        for d in self.prog["defs"]:
            if not d.get("aware") and not d.get("arg") and not d.get("buffered") and not d.get("is_nested") and d.get("decorator") is None:
                return d["name"]
        return None

    def real_render_def(self, placement, fault, name):
        lk, real_get = self.lookup_for(placement)
        self.reset_caches(real_get)
        t = real_get("/main.html")
        c13rt.ST.reset(fault)
        self.renders += 1
        out = {}
        try:
            out["text"] = t.get_def(name).render(zz="ZZ", boomcls=c13rt.Boom)
            out["status"] = "ok"
        except (Exception, c13rt.BoomBase) as e:
            out["status"] = "raised"
            out["exc"] = e
        out["raised_obj"] = c13rt.ST.raised
        out["order"] = list(c13rt.ST.order)
        c13rt.ST.reset(None)
        try:
            out["second"] = t.get_def(name).render(zz="ZZ", boomcls=c13rt.Boom)
        except Exception as e:
            out["second"] = "raised %s: %s" % (type(e).__name__, str(e)[:100])
        return out

    def check_def_fault(self, pl, fault, dn):
        prog = self.prog
        fault = tuple(fault[:2])
        self.current = {"placement": "getdef_" + pl, "fault": list(fault)}
        m = Interp(prog, fault=fault)
        mr = m.render_def(dn)
        real = self.real_render_def(pl, fault, dn)
        where = m.raised_in or "?"
        self.probe("get_def-render-faulted")
        self.faults_fired["raise@callout"] = self.faults_fired.get("raise@callout", 0) + 1
        self.points_done += 1
        label = "get_def"
        fdesc = "call-out %d (occurrence %d) raising inside %s of get_def(%r).render(), handler placement %s" % (fault[0], fault[1], where, dn, pl)
        self.log.add("getdef-fault", pl, list(fault), real["status"],
                     "<error page>" if pl == "format_exceptions" and real["status"] == "ok" and mr[0] != "ok" else real.get("text"))
        if mr[0] == "ok":
            if real["status"] != "ok" or real["text"] != mr[1]:
                self.flag("output-mismatch", "%s: rendered %s, the reference interpreter gives %r"
                          % (fdesc, repr(real["text"]) if real["status"] == "ok" else "raised %r" % real.get("exc"), mr[1]), label)
        else:
            partial = mr[2]
            if pl == "none":
                if real["status"] != "raised" or real["exc"] is not real["raised_obj"]:
                    self.flag("exception-identity", "%s: expected the original exception object to propagate, got %s"
                              % (fdesc, ("text %r" % real["text"]) if real["status"] == "ok" else repr(real.get("exc"))), label)
            elif pl == "error_handler":
                want = partial + "[EH]"
                if real["status"] != "ok" or real["text"] != want:
                    self.flag("output-mismatch", "%s: with an error_handler returning True render gave %s; text written directly before the "
                              "exception plus the handler's own write is %r"
                              % (fdesc, repr(real["text"]) if real["status"] == "ok" else "raised %r" % real.get("exc"), want), label)
            elif pl == "format_exceptions":
                text = real.get("text")
                if isinstance(text, bytes):
                    text = text.decode("utf-8", "replace")
                if real["status"] != "ok" or "Boom" not in text or ("boom(%s,%d)" % fault) not in text:
                    self.flag("exception-identity", "%s: format_exceptions should return an error page naming the exception, got %s"
                              % (fdesc, repr(text[:80]) if real["status"] == "ok" else "raised %r" % real.get("exc")), label)
        again = Interp(prog, fault=None, cache=m.cache).render_def(dn)
        if real["second"] != again[1]:
            self.flag("second-render", "%s: get_def(%r).render() again gave %r, expected %r" % (fdesc, dn, real["second"], again[1]), label)

    def check_undef(self, pl, fault_free):
        prog = self.prog
        self.current = {"placement": pl, "undef": True}
        m = Interp(prog, include_handler=False, undef=True)
        mr = m.render()
        if m.raised_in is None:
            return  # the marked def is never called
        real = self.real_render(pl, None, undef=True)
        where = m.raised_in
        self.probe("prologue-raised")
        self.faults_fired["raise@prologue"] = self.faults_fired.get("raise@prologue", 0) + 1
        fdesc = "name lookup in the prologue of a def raising (strict_undefined) inside %s, handler placement %s" % (where, pl)
        label = where
        self.log.add("undef", pl, real["status"], real.get("text") if real["status"] == "ok" else type(real.get("exc")).__name__)
        if mr[0] == "ok":
            want = mr[1] + ("|W|T2<nocaller>" if pl == "render_context" else "")
            if real["status"] != "ok" or real["text"] != want:
                self.flag("output-mismatch", "%s: rendered %s, the reference interpreter gives %r"
                          % (fdesc, repr(real["text"]) if real["status"] == "ok" else "raised %r" % real.get("exc"), want), label)
        else:
            partial = mr[2]
            if pl in ("none", "error_handler_false"):
                if real["status"] != "raised" or not isinstance(real["exc"], NameError):
                    self.flag("exception-identity", "%s: expected the NameError to propagate, got %s"
                              % (fdesc, ("text %r" % real["text"]) if real["status"] == "ok" else repr(real.get("exc"))), label)
            elif pl == "error_handler":
                want = partial + "[EH]"
                if real["status"] != "ok" or real["text"] != want:
                    self.flag("output-mismatch", "%s: with an error_handler returning True render gave %s; expected %r"
                              % (fdesc, repr(real["text"]) if real["status"] == "ok" else "raised %r" % real.get("exc"), want), label)
            elif pl == "render_context":
                if real["status"] != "raised" or not isinstance(real["exc"], NameError):
                    self.flag("exception-identity", "%s: render_context should raise the NameError, got %r" % (fdesc, real.get("exc")), label)
                self.check_context_state(real, partial, fdesc, label)
        again = Interp(prog, fault=None, cache=m.cache).render()
        if real["second"] != again[1]:
            self.flag("second-render", "%s: rendering the same Template again gave %r, expected %r" % (fdesc, real["second"], again[1]), label)

    def check_context_state(self, real, partial, fdesc, label):
        if real["buffer_depth"] != 1 or not real["top_is_sink"]:
            self.flag("stack-depth", "%s: after the failed render_context the Context holds %d buffers (top is the caller's: %s)"
                      % (fdesc, real["buffer_depth"], real["top_is_sink"]), "buffer")
        if real["caller_depth"] != 0 or real["nextcaller"] is not None:
            self.flag("stack-depth", "%s: after the failed render_context the caller stack has %d frames, pending nextcaller %r"
                      % (fdesc, real["caller_depth"], real["nextcaller"]), "caller")
        want = partial + "|W|T2<nocaller>"
        if real["after"] != "ok" or real["text"] != want:
            self.flag("output-mismatch", "%s: Context.write() and a further render_context on the same Context gave %r (%s); expected %r"
                      % (fdesc, real["text"], real["after"], want), label)

    def check_sink_fault(self, j, fault_free):
        self.current = {"placement": "render_context", "sink": j}
        real = self.real_render("render_context", None, sink_fail=j)
        self.faults_fired["sink-error"] = self.faults_fired.get("sink-error", 0) + 1
        self.probe("sink-write-failed")
        fdesc = "write %d of the caller-supplied sink raising" % j
        label = "sink"
        self.log.add("sink", j, real["status"], real.get("text"))
        if real["status"] != "raised" or real["exc"] is not real["sink"].failed:
            # the failing write may have happened inside a % try of the program: then it is handled there
            if real["status"] == "ok" and real["sink"].failed is not None:
                pass
            else:
                self.flag("exception-identity", "%s: expected the sink's exception to propagate, got %r" % (fdesc, real.get("exc")), label)
        if real["status"] == "raised":
            if real["buffer_depth"] != 1 or not real["top_is_sink"]:
                self.flag("stack-depth", "%s: Context holds %d buffers afterwards" % (fdesc, real["buffer_depth"]), "buffer")
            if real["caller_depth"] != 0 or real["nextcaller"] is not None:
                self.flag("stack-depth", "%s: caller stack has %d frames, pending nextcaller %r"
                          % (fdesc, real["caller_depth"], real["nextcaller"]), "caller")
            text = real["text"]
            tail = "|W|T2<nocaller>"
            if real["after"] != "ok" or not text.endswith(tail) or not fault_free.startswith(text[: -len(tail)]):
                self.flag("output-mismatch", "%s: sink holds %r afterwards (%s); expected a prefix of the fault-free output followed by %r"
                          % (fdesc, text, real["after"], tail), label)
        if real["second"] != fault_free:
            self.flag("second-render", "%s: rendering the same Template again gave %r, fault-free text is %r" % (fdesc, real["second"], fault_free), label)


def c13rt_raised(real):
    return real["raised_obj"]


def execute(trace, root):
    sys.dont_write_bytecode = True
    h = Harness(trace)
    h.points_total = h.points_done = 0
    h.run()
    if h.model_mismatch:
        raise RuntimeError("C13 harness: " + h.model_mismatch + "\n" + repr(h.texts))
    seen = set()
    violations = []
    first_by_sig = {}
    for sig, msg, cur in h.viol:
        if sig in seen:
            continue
        seen.add(sig)
        v = {"signature": sig, "message": msg}
        if cur and not trace.get("only"):
            v["trace_patch"] = {"only": cur}
        violations.append(v)
    prog = trace["prog"]
    ncall = h.points_total
    unwind = any(d.get("buffered") or d.get("filter") is not None or d.get("cached") for d in prog["defs"]) or prog["incs"] \
        or prog.get("base") or '"for"' in repr(prog).replace("'", '"') or '"ccall"' in repr(prog).replace("'", '"')
    out = {
        "violations": violations,
        "digest": h.log.digest(),
        "counters": {"faults_fired": h.faults_fired, "probes": h.probes},
        "hashes": {},
        "totals": {"programs": 1, "faulted_renders": h.faults_fired.get("raise@callout", 0) + h.faults_fired.get("sink-error", 0),
                   "renders": h.renders, "crash_points_enumerated": h.points_done, "crash_points_total": h.points_total * len(trace["placements"]),
                   "programs_capped": 1 if h.points_total > trace["max_faults"] else 0},
        "sim_seconds": 0.0,
        "nontrivial": bool(ncall >= 3 and unwind),
        "case_hash": stable_hash(prog),
        "sample": {"templates": h.texts, "callouts": ncall, "placements": trace["placements"]},
    }
    return out


def simplifications(trace):
    """structural shrinking: drop one node anywhere, drop a def flag, drop an include / the base"""
    prog = trace["prog"]

    def paths(nodes, prefix):
        for j, n in enumerate(nodes):
            yield prefix + [j]
            for key in ("body", "handler"):
                if key in n:
                    yield from paths(n[key], prefix + [j, key])

    def get(root, path):
        cur = root
        for step in path:
            cur = cur[step]
        return cur

    roots = [("body",)]
    for di, d in enumerate(prog["defs"]):
        roots.append(("defs", di, "body"))
        for ni in range(len(d["nested"])):
            roots.append(("defs", di, "nested", ni, "body"))
    for k, inc in enumerate(prog["incs"]):
        roots.append(("incs", k, "body"))
    if prog.get("base"):
        roots += [("base", "pre"), ("base", "post"), ("base", "hd_body")]
    if prog.get("child_hd"):
        roots.append(("child_hd",))
    for root in roots:
        nodes = get(prog, root)
        for path in list(paths(nodes, [])):
            c = copy.deepcopy(trace)
            parent = get(c["prog"], list(root) + path[:-1])
            del parent[path[-1]]
            yield c
    for di, d in enumerate(prog["defs"]):
        for flag, val in (("buffered", False), ("filter", None), ("cached", False), ("decorator", None)):
            if d.get(flag):
                c = copy.deepcopy(trace)
                c["prog"]["defs"][di][flag] = val
                yield c
    if prog.get("base") and prog.get("child_hd") is not None:
        c = copy.deepcopy(trace)
        c["prog"]["child_hd"] = None
        yield c


def evidence_extra(agg):
    return {"crash_points_enumerated": agg.totals.get("crash_points_enumerated", 0),
            "crash_points_total": agg.totals.get("crash_points_total", 0),
            "programs": agg.totals.get("programs", 0), "faulted_renders": agg.totals.get("faulted_renders", 0)}
