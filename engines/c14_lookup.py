"""C14 engine: histories of a TemplateLookup on a simulated clock and file
system, checked call by call against models.lookup_model.LookupModel."""

import os
import posixpath
import re
import sys

from vsim import seams
from vsim.core import EventLog, Probes, SimClock, stable_hash
from vsim.fs import Fault, World, SeamCapExceeded
from models.lookup_model import LookupModel, resolve

NAME = "c14_lookup"
PROPERTY = "C14"

RULE = ("one case = one seeded history: a lookup configuration (1-3 directories, filesystem_checks, collection_size in "
        "{-1,1,2,4}, module directory on/off, whole-second or sub-second clock with auto-tick and mtime granularity) plus "
        "4-40 operations {advance clock, write/delete/break/unreadable file, get_template, has_template, render, put_string, "
        "put_template, restart} and 0-2 I/O faults, followed by a heal-and-converge phase; every get_template call (also the "
        "nested ones a render makes) is judged against the reference model. Non-trivial = at least two lookups and at least "
        "one state-changing operation; distinct = distinct hash of (config, files, ops, faults).")
COMPONENTS = {
    "real": ["mako.lookup.TemplateLookup", "mako.util.LRUCache", "mako.template.Template (+ module-file path)",
             "mako.lexer", "mako.codegen", "mako.runtime (render, include, inherit)", "importlib (module files)",
             "tmpfs file system (real POSIX calls)"],
    "simulated": ["wall clock (mako.codegen.time)", "monotonic clock (mako.util.timeit)", "file mtimes (utime to simulated time)",
                  "outcome of stat/isfile/open (fault plan)", "Template construction counter (mako.lookup.Template)"],
    "stub": [],
}
ASSUMPTIONS = (
    "module-global rebinding reaches every clock and file-system call of the lookup path (an audit of mako/*.py lists them)",
    "the collection's key set is read from TemplateLookup._collection after each call",
    "a template's content version is read from a module-level VTAG constant compiled from the source",
    "PYTHONHASHSEED pinned to 0; the C14 workload does not depend on set order",
)
EXPECTED_PROBES = ("reload-because-stale", "same-object-fast-path", "edit-within-one-second-zone", "compile-straddles-second",
                   "lru-eviction", "evicted-put-entry", "broken-content-raised", "cached-file-gone", "module-file-reused",
                   "hostile-uri-rejected", "faulted-call-raised", "render-nested-lookup-raised", "stable-hit",
                   "stale-within-second-served", "unreadable-raised", "no-file-toplevel", "symlink-repointed",
                   "symlink-target-edited-in-place")
KINDS = ("plain", "inc", "inh", "base")
ADVANCES_WHOLE = (1, 1, 1, 2, 2, 5, 3600)
ADVANCES_SUB = (0.1, 0.5, 0.999, 1, 1.001, 2, 5, 3600)


# ------------------------------------------------------------------ content
def tagstr(tag):
    return "u%dd%dv%d" % tuple(tag)


def content(uspec, tag, health="ok"):
    t = tagstr(tag)
    head = '<%%! VTAG = "%s" %%>' % t
    kind = uspec["kind"]
    if health == "exec":
        head = '<%%! VTAG = "%s"; raise ZeroDivisionError("boom") %%>' % t
    if kind == "plain":
        body = "T%s[${x}]" % t
    elif kind == "inc":
        body = 'T%s[${x}]<%%include file="%s"/>' % (t, uspec["ref"])
    elif kind == "inh":
        head += '<%%inherit file="%s"/>' % uspec["ref"]
        body = "T%s[${x}]" % t
    else:
        body = "B%s[${x}](${context['next'].body() if 'next' in context.keys() else ''})" % t
    if health == "lex":
        body += '<%def name="q()">unclosed'
    elif health == "py":
        body += "${ 1 + }"
    return head + body


def expected_text(tag, x, uspecs, nested, adjust):
    """Compose the render text from the templates actually served to the
    nested get_template calls of this render (queues per uri in `nested`)."""
    t = tagstr(tag)
    if tag[0] >= 90:  # a put_string / put_template text entry
        return "S%s[%s]" % (t, x)
    us = uspecs[tag[0]]
    kind = us["kind"]
    own = "T%s[%s]" % (t, x)
    if kind == "plain":
        return own
    if kind == "base":
        return "B%s[%s]()" % (t, x)
    ref = adjust(us["ref"], us["uri"])
    q = nested.get(ref) or []
    if not q:
        raise LookupError("render served no nested template for %r" % ref)
    sub = q.pop(0)
    if kind == "inc":
        return own + expected_text(sub, x, uspecs, nested, adjust)
    if sub[0] >= 90:  # inheriting from a put_string entry: it has no next.body()
        return "S%s[%s]" % (tagstr(sub), x)
    return "B%s[%s](%s)" % (tagstr(sub), x, own)


def adjust_uri(ref, relativeto):
    if ref.startswith("/"):
        return ref
    return posixpath.join(posixpath.dirname(relativeto), ref)


# ---------------------------------------------------------------- generator
def generate(rng, tier, idx, force=None):
    force = force or {}
    sub = rng.random() < 0.45
    cfg = {
        "ndirs": rng.choice((1, 2, 2, 3)),
        "fs_checks": rng.random() < 0.8,
        "collection_size": rng.choice((-1, -1, 1, 2, 4, 4, 5, 6)),
        "moddir": rng.random() < 0.4,
        "write_bytecode": False,
        "clock_mode": "subsecond" if sub else "whole",
        "auto_tick": rng.choice((0.0, 0.001, 0.05, 0.4)) if sub else 0.0,
        "gran_ns": rng.choice((1, 1, 10**9, 2 * 10**9)) if sub else 10**9,
        "phase": round(rng.random(), 3) if sub else 0.0,
        "fault_class": rng.random() < 0.35,
    }
    cfg.update(force.get("config", {}))
    big = cfg["collection_size"] >= 5  # recency bookkeeping below capacity only shows with many URIs
    nuri = rng.randint(6, 8) if big else rng.randint(2, 6)
    names = ["a.html", "b.html", "sub/c.html", "sub/d.html", "e.html", "sub/deep/f.html", "g.html", "sub/h.html"]
    rng.shuffle(names)
    uspecs = []
    for i in range(nuri):
        uspecs.append({"uri": "/" + names[i], "rel": names[i], "kind": "plain"})
    # wire some includes / inheritance (targets: inc -> plain|inh ; inh -> base)
    idxs = list(range(nuri))
    if nuri >= 3 and rng.random() < 0.6:
        base = rng.choice(idxs)
        uspecs[base]["kind"] = "base"
        others = [i for i in idxs if i != base]
        inh = rng.choice(others)
        uspecs[inh]["kind"] = "inh"
        uspecs[inh]["ref"] = _ref(rng, uspecs[inh], uspecs[base])
        rest = [i for i in others if i != inh]
        if rest and rng.random() < 0.7:
            inc = rng.choice(rest)
            tgt = rng.choice([i for i in idxs if i not in (inc, base)])
            if uspecs[tgt]["kind"] in ("plain", "inh"):
                uspecs[inc]["kind"] = "inc"
                uspecs[inc]["ref"] = _ref(rng, uspecs[inc], uspecs[tgt])
    elif nuri >= 2 and rng.random() < 0.5:
        inc, tgt = rng.sample(idxs, 2)
        uspecs[inc]["kind"] = "inc"
        uspecs[inc]["ref"] = _ref(rng, uspecs[inc], uspecs[tgt])
    # request spellings: canonical + aliases of plain templates + hostile ones
    requests = [u["uri"] for u in uspecs]
    plain = [u for u in uspecs if u["kind"] == "plain"]
    if plain and rng.random() < 0.4:
        u = rng.choice(plain)
        requests.append(rng.choice(("//" + u["rel"], "zz/../" + u["rel"], "\\" + u["rel"].replace("/", "\\"))))
    if rng.random() < 0.5:
        requests.append(rng.choice(("/../outside/secret.html", "../outside/secret.html",
                                    "/sub/../../outside/secret.html", "\\..\\outside\\secret.html",
                                    "/missing.html", "/sub/missing.html")))
    # the URIs that put_string / put_template register are looked up too
    requests += ["/p.html", "/t.html"]
    nd = cfg["ndirs"]
    files = []
    for i in range(nuri):
        ds = [d for d in range(nd) if rng.random() < 0.6]
        if not ds and rng.random() < 0.85:
            ds = [rng.randrange(nd)]
        for d in ds:
            files.append([i, d])
    nops = rng.randint(4, 40 if (tier == "thorough" or big) else 28)
    adv = ADVANCES_SUB if sub else ADVANCES_WHOLE
    ops = []
    xn = 0
    for _ in range(nops):
        r = rng.random()
        i = rng.randrange(nuri)
        d = rng.randrange(nd)
        if r < 0.17:
            if sub and rng.random() < 0.3:
                ops.append(["advance", round(rng.uniform(0.05, 1.3), 3)])
            elif sub and rng.random() < 0.45:
                # land on a chosen sub-second phase (second boundaries are where the
                # int()-truncated mtime comparisons change their answer)
                ops.append(["advance_frac", rng.choice((0, 0, 1)),
                            rng.choice((0.0, 0.001, 0.5, 0.9, 0.93, 0.95, 0.97, 0.999))])
            else:
                ops.append(["advance", rng.choice(adv)])
        elif r < 0.31:
            mode = "now"
            if sub and rng.random() < 0.25:
                mode = rng.choice(("older", "equal"))
            ops.append(["write", i, d, mode])
        elif r < 0.33 and rng.random() < 0.5:
            # the URI is a symbolic link that is re-pointed to a new release of the file
            # ... or, when the path already is a link, new content written to the link's target in place
            ops.append(["relink", i, d, rng.random() < 0.4])
            if rng.random() < 0.5:
                # a deployment through a link, later patched in place: load, wait, edit the link's target, look again
                ops.append(["get", uspecs[i]["uri"]])
                ops.append(["advance", rng.choice(adv)])
                ops.append(["relink", i, d, True])
                ops.append(["advance", rng.choice(adv)])
                ops.append(["get", uspecs[i]["uri"]])
        elif r < 0.36:
            ops.append(["delete", i, d])
        elif r < 0.41:
            ops.append(["break", i, d, rng.choice(("lex", "py", "exec"))])
        elif r < 0.44:
            ops.append(["unreadable", i, d, rng.random() < 0.5])
        elif r < 0.70 or (big and r < 0.88):
            ops.append(["get", rng.choice(requests)])
        elif r < 0.75:
            ops.append(["has", rng.choice(requests)])
        elif r < 0.90:
            xn += 1
            ops.append(["render", rng.choice(requests), "x%d" % xn])
        elif r < 0.94:
            ops.append(["put_string", rng.choice(("/p.html", "/q.html", uspecs[i]["uri"])), rng.randint(1, 9)])
        elif r < 0.97:
            key = rng.choice(("/p.html", "/t.html", uspecs[i]["uri"]))
            mode = rng.choice(("string", "file"))
            ops.append(["put_template", key, mode, i, d])
            if mode == "file" and rng.random() < 0.6:
                # the registered file changes later; the entry must follow it under its key
                ops.append(["get", key])
                ops.append(["advance", rng.choice(adv)])
                ops.append(["write", i, d, "now"])
                ops.append(["advance", rng.choice(adv)])
                ops.append(["get", key])
                ops.append(["get", key])
        else:
            ops.append(["restart"])
    if sub and rng.random() < 0.12:
        # timing-directed fragment: compile close to a second boundary, edit the same
        # file late in the following second, look again (and once more much later)
        i = rng.randrange(nuri)
        d = rng.randrange(nd)
        if "config" not in force:
            cfg["moddir"] = rng.random() < 0.7
            cfg["gran_ns"] = 1
            cfg["auto_tick"] = rng.choice((0.001, 0.05, 0.05))
        frag = [["write", i, d, "now"], ["advance_frac", 1, round(rng.uniform(0.5, 1.0), 2)], ["get", uspecs[i]["uri"]],
                ["advance_frac", 0, round(rng.uniform(0.9, 1.0), 3)], ["write", i, d, "now"], ["get", uspecs[i]["uri"]],
                ["advance", 5], ["get", uspecs[i]["uri"]]]
        at = rng.randrange(len(ops) + 1)
        ops[at:at] = frag
    faults = []
    if cfg["fault_class"]:
        cand = [j for j, op in enumerate(ops) if op[0] in ("get", "has", "render")]
        for _ in range(rng.choice((1, 1, 2))):
            if not cand:
                break
            j = rng.choice(cand)
            kind, call = rng.choice((("eio", "stat"), ("vanish", "isfile"), ("vanish", "stat"), ("eio", "open"),
                                     ("unreadable", "open"), ("vanish", "open")))
            faults.append({"kind": kind, "op": j, "call": call, "nth": rng.choice((0, 0, 1))})
        if sub and rng.random() < 0.3:
            ops.insert(rng.randrange(len(ops) + 1), ["clockstep", rng.choice((-5.0, -1.5, 3.0))])
    return {"engine": NAME, "property": PROPERTY, "config": cfg, "uspecs": uspecs, "requests": requests,
            "files": files, "ops": ops, "faults": faults}


def _ref(rng, src, tgt):
    # relative reference when both live in the same directory, else absolute
    if posixpath.dirname(src["rel"]) == posixpath.dirname(tgt["rel"]) and rng.random() < 0.5:
        return posixpath.basename(tgt["rel"])
    return tgt["uri"]


def trace_size(trace):
    return len(trace["ops"]) * 4 + len(trace["faults"]) * 2 + len(trace["files"]) + len(trace["uspecs"])


# ------------------------------------------------------------------ harness
class LockLeak(BaseException):
    pass


class CheckedLock:
    """Stands in for TemplateLookup._mutex in the single-threaded C14 runs: acquiring it while it is still
    held (an earlier call failed without releasing it) would block for ever; report that instead of hanging."""

    def __init__(self):
        self.held = False
        self.leaks = 0

    def acquire(self, blocking=True, timeout=-1):
        if self.held:
            self.leaks += 1
            self.held = False  # recover so that the rest of the history can be judged
            raise LockLeak()
        self.held = True
        return True

    def release(self):
        if not self.held:
            raise RuntimeError("release unlocked lock")
        self.held = False

    def locked(self):
        return self.held

    __enter__ = acquire

    def __exit__(self, *a):
        self.release()


class Harness:
    def __init__(self, trace, root):
        import mako.lookup
        import mako.template

        self.trace = trace
        self.cfg = cfg = trace["config"]
        self.uspecs = trace["uspecs"]
        self.root = root
        self.clock = SimClock(start=1_000_000_000.0 + cfg["phase"], auto_tick=cfg["auto_tick"])
        self.log = EventLog()
        self.probes = Probes()
        self.world = World(root, self.clock, self.log, gran_ns=cfg["gran_ns"], faults=trace["faults"])
        self.world.enabled = False
        sys.dont_write_bytecode = not cfg["write_bytecode"]
        seams.install(self.world, self.clock)
        self.dirs = [posixpath.join(root, "d%d" % d) for d in range(cfg["ndirs"])]
        for d in self.dirs:
            os.makedirs(d)
        os.makedirs(posixpath.join(root, "outside"))
        self.world.put_file(posixpath.join(root, "outside", "secret.html"), '<%! VTAG = "u99d9v9" %>SECRET')
        self.moddir = posixpath.join(root, "mod") if cfg["moddir"] else None
        self.viol = []
        self.records = []
        self.model = LookupModel(self.dirs, cfg["fs_checks"], cfg["collection_size"], self.moddir, self.viol)
        self.versions = {}
        self.ncons = 0
        self.state_hashes = set()
        self.Template = mako.template.Template
        real_template = self.Template
        harness = self

        def counting_template(*a, **kw):
            harness.ncons += 1
            return real_template(*a, **kw)

        mako.lookup.Template = counting_template
        self.lookup = None
        self.keep = []  # keep every object alive so ids/identity stay meaningful
        self.nested = None
        self.step = 0
        for (i, d) in trace["files"]:
            self.write_file(i, d, "now", "ok")
        self.new_lookup()

    # ---- files
    def path(self, i, d):
        return posixpath.join(self.dirs[d], self.uspecs[i]["rel"])

    def write_file(self, i, d, mode, health):
        p = self.path(i, d)
        v = self.versions.get((i, d), 0) + 1
        self.versions[(i, d)] = v
        tag = (i, d, v)
        mtime = None
        if mode != "now" and p in self.model.files:
            old = self.model.files[p].mtime
            mtime = old if mode == "equal" else old - 2.0
        m = self.world.put_file(p, content(self.uspecs[i], tag, health), mtime)
        self.model.file_written(p, tag, m, health)
        self.log.add("file", self.world.rel(p), tagstr(tag), health, round(m, 6))

    # ---- lookup
    def new_lookup(self):
        import mako.lookup

        cfg = self.cfg
        self.lookup = mako.lookup.TemplateLookup(
            directories=list(self.dirs), module_directory=self.moddir,
            filesystem_checks=cfg["fs_checks"], collection_size=cfg["collection_size"])
        self.model.restart()
        self.lookup._mutex = CheckedLock()
        real_get = self.lookup.get_template
        harness = self

        def recording_get(uri):
            return harness.recorded_get(real_get, uri)

        self.lookup.get_template = recording_get

    def keys(self):
        return list(dict.keys(self.lookup._collection))

    def describe(self, obj):
        tag = getattr(obj.module, "VTAG", None)
        if isinstance(tag, str):
            m = re.match(r"u(\d+)d(\d+)v(\d+)$", tag)
            tag = tuple(int(g) for g in m.groups()) if m else ("?", tag, 0)
        return tag

    def recorded_get(self, real_get, uri):
        w = self.world
        t0 = self.clock.now
        c0 = self.ncons
        w0 = w.module_writes
        f0 = len(w.fired)
        try:
            obj = real_get(uri)
        except SeamCapExceeded:
            raise
        except LockLeak as e:
            self.viol.append(("C14/lookup-poisoned", "get_template(%r) would block for ever: the lookup's mutex is still held by an earlier "
                              "call that failed without releasing it" % uri))
            outcome = ("raised", ["LockLeak", "BaseException"], "mutex still held")
            exc = RuntimeError("mutex leaked")
            self.model.cache.pop(uri, None)
            self.records.append((uri, outcome))
            raise exc
        except Exception as e:
            outcome = ("raised", [c.__name__ for c in type(e).__mro__], str(e))
            exc = e
        else:
            self.keep.append(obj)
            outcome = ("served", obj, self.describe(obj), obj.last_modified, obj.filename)
            exc = None
        t1 = self.clock.now
        injected = [f[0] for f in w.fired[f0:]]
        # side effects of fired faults on the world, told to the model first
        for (kind, label, relp, _op) in w.fired[f0:]:
            if kind == "vanish" and relp and not relp.startswith("<ext>"):
                ap = self.root + relp
                if not os.path.exists(ap):
                    self.model.file_deleted(ap)
            self.probes.hit("fault:" + kind)
        wrote = w.module_writes > w0
        if wrote and self.moddir:
            self.scan_module(uri, t0, t1)
        nv = len(self.viol)
        self.model.check_get(uri, t0, t1, outcome, self.ncons - c0, wrote, injected, None)
        self.model.observe_keys(self.keys(), "get_template(%r)" % uri)
        self.log.add("get", uri, outcome[0], tagstr(outcome[2]) if outcome[0] == "served" and outcome[2] and outcome[2][0] != "?" else str(outcome[1][0] if outcome[0] == "raised" else outcome[2]),
                     self.ncons - c0, len(self.viol) - nv)
        self.records.append((uri, outcome))
        self.note_state()
        if self.nested is not None and outcome[0] == "served":
            self.nested.setdefault(uri, []).append(outcome[2])
        if exc is not None:
            self.last_get_exc = exc
            raise exc
        return obj

    def scan_module(self, uri, t0, t1):
        mp = self.model.module_path(uri)
        try:
            with open(mp, "rb") as f:
                text = f.read().decode("utf-8", "replace")
        except OSError:
            return
        mt = re.search(r"_modified_time = ([0-9.e+]+)", text)
        mv = re.search(r'VTAG = "u(\d+)d(\d+)v(\d+)"', text)
        if not mt or not mv:
            return
        T0 = float(mt.group(1))
        tag = tuple(int(g) for g in mv.groups())
        if not (t0 - 1e-6 <= T0 <= t1 + 1e-6):
            self.viol.append(("C14/stamp-outside-call", "module file for %r stamped %.6f outside the writing call [%.6f, %.6f]"
                              % (uri, T0, t0, t1)))
        health = "exec" if "ZeroDivisionError" in text else "ok"
        self.model.modfiles[mp] = (tag, T0, health)

    def note_state(self):
        m = self.model
        st = (sorted((u, e.tag, e.kind) for u, e in m.cache.items() if e.tag is not None and e.tag[0] != "?"),
              sorted((self.world.rel(p), f.tag, f.health) for p, f in m.files.items()))
        self.state_hashes.add(stable_hash(st))

    # ---- operations
    def do(self, j, op):
        self.step = j
        w = self.world
        w.begin_op(j)
        name = op[0]
        self.log.add("op", j, *op)
        if name == "advance":
            self.clock.advance(op[1])
        elif name == "advance_frac":
            import math
            cur = self.clock.now
            target = math.floor(cur) + op[2]
            if target <= cur + 1e-9:
                target += 1.0
            self.clock.advance(target + op[1] - cur)
        elif name == "clockstep":
            self.clock.step(op[1])
            self.probes.hit("fault:clock-step-" + ("back" if op[1] < 0 else "forward"))
        elif name == "write":
            self.write_file(op[1], op[2], op[3], "ok")
        elif name == "break":
            self.write_file(op[1], op[2], "now", op[3])
        elif name == "relink":
            i, d = op[1], op[2]
            p = self.path(i, d)
            v = self.versions.get((i, d), 0) + 1
            self.versions[(i, d)] = v
            tag = (i, d, v)
            if len(op) > 3 and op[3] and os.path.islink(p) and os.path.exists(p):
                # the link stays as it is (and keeps its own, older, timestamps); its target gets the new content
                m = w.put_file(os.path.realpath(p), content(self.uspecs[i], tag, "ok"))
                self.probes.hit("symlink-target-edited-in-place")
            else:
                rel = posixpath.join(self.root, "releases", "u%dd%dv%d.html" % tag)
                m = w.put_file(rel, content(self.uspecs[i], tag, "ok"))
                os.makedirs(posixpath.dirname(p), exist_ok=True)
                tmp = p + ".lnk~"
                if os.path.lexists(tmp):
                    os.remove(tmp)
                os.symlink(rel, tmp)
                ns = int(round(m * 1e9))
                os.utime(tmp, ns=(ns, ns), follow_symlinks=False)  # the link itself is created "now" on the simulated clock
                os.rename(tmp, p)
            w.unreadable.discard(p)
            self.model.unreadable.discard(p)
            self.model.file_written(p, tag, m, "ok")
            self.probes.hit("symlink-repointed")
            self.log.add("relink", w.rel(p), tagstr(tag), round(m, 6))
        elif name == "delete":
            p = self.path(op[1], op[2])
            if w.del_file(p):
                self.model.file_deleted(p)
        elif name == "unreadable":
            p = self.path(op[1], op[2])
            if p in self.model.files:
                if op[3]:
                    w.unreadable.add(p)
                    self.model.unreadable.add(p)
                else:
                    w.unreadable.discard(p)
                    self.model.unreadable.discard(p)
                self.model.file_touched(p)
        elif name == "get":
            w.enabled = True
            try:
                self.lookup.get_template(op[1])
            except SeamCapExceeded:
                raise
            except Exception:
                pass
            finally:
                w.enabled = False
        elif name == "has":
            w.enabled = True
            n0 = len(self.records)
            try:
                r = self.lookup.has_template(op[1])
            except SeamCapExceeded:
                raise
            except Exception as e:
                r = e
            finally:
                w.enabled = False
            if len(self.records) == n0:
                # has_template answered without asking get_template: ask now (nothing has changed in between)
                w.enabled = True
                try:
                    self.lookup.get_template(op[1])
                except SeamCapExceeded:
                    raise
                except Exception:
                    pass
                finally:
                    w.enabled = False
                self.probes.hit("has-template-answered-without-lookup")
            if len(self.records) >= n0 + 1:
                out = self.records[-1][1]
                if out[0] == "served" and r is not True:
                    self.viol.append(("C14/wrong-exception", "has_template(%r) = %r although get_template served it" % (op[1], r)))
                if out[0] == "raised" and "TemplateLookupException" in out[1] and r is not False:
                    self.viol.append(("C14/wrong-exception", "has_template(%r) = %r although get_template raised a lookup exception" % (op[1], r)))
        elif name == "render":
            self.do_render(op[1], op[2])
        elif name == "put_string":
            uri, v = op[1], op[2]
            tag = (90, 0, v)
            w.enabled = True
            try:
                self.lookup.put_string(uri, '<%%! VTAG = "%s" %%>S%s[${x}]' % (tagstr(tag), tagstr(tag)))
            finally:
                w.enabled = False
            obj = dict.get(self.lookup._collection, uri)
            obj = getattr(obj, "value", obj)
            self.keep.append(obj)
            self.model.did_put(uri, obj, "string", None, getattr(obj, "last_modified", 0.0), tag)
            self.model.observe_keys(self.keys(), "put_string(%r)" % uri)
        elif name == "put_template":
            uri, mode, i, d = op[1:5]
            if mode == "string":
                tag = (91, 0, i)
                t = self.Template('<%%! VTAG = "%s" %%>S%s[${x}]' % (tagstr(tag), tagstr(tag)), uri=uri, lookup=self.lookup)
                kind, path = "string", None
            else:
                p = self.path(i, d)
                f = self.model.files.get(p)
                if f is None or f.health != "ok" or p in self.model.unreadable or self.uspecs[i]["kind"] != "plain":
                    return
                # harness-side construction (no seams, no faults); the Template's own uri is its natural one,
                # which need not be the key it is registered under
                t = self.Template(filename=p, uri=self.uspecs[i]["uri"], lookup=self.lookup)
                tag, kind, path = f.tag, "file", p
            self.keep.append(t)
            self.lookup.put_template(uri, t)
            self.model.did_put(uri, t, kind, path, t.last_modified, tag)
            self.model.observe_keys(self.keys(), "put_template(%r)" % uri)
        elif name == "restart":
            self.new_lookup()
            self.probes.hit("restart")
        else:
            raise ValueError(name)

    def do_render(self, uri, x):
        w = self.world
        w.enabled = True
        self.nested = None
        n0 = len(self.records)
        try:
            try:
                t = self.lookup.get_template(uri)
            except SeamCapExceeded:
                raise
            except Exception:
                return
            top = self.records[-1][1][2]
            self.nested = {}
            nrec = len(self.records)
            try:
                text = t.render(x=x)
            except SeamCapExceeded:
                raise
            except Exception as e:
                # admissible only if it is the exception of a nested lookup that was itself judged
                if len(self.records) > nrec and self.records[-1][1][0] == "raised":
                    self.probes.hit("render-nested-lookup-raised")
                else:
                    self.viol.append(("C14/render-mismatch", "render(%r) raised %s: %s with all nested lookups served"
                                      % (uri, type(e).__name__, str(e)[:100])))
                return
        finally:
            w.enabled = False
            nested, self.nested = self.nested, None
        if top is None or top[0] == "?" or top[0] >= 90:
            want = "S%s[%s]" % (tagstr(top), x) if top and top[0] != "?" else None
        else:
            try:
                want = expected_text(top, x, self.uspecs, nested, adjust_uri)
            except LookupError as e:
                self.viol.append(("C14/render-mismatch", "render(%r): %s" % (uri, e)))
                return
        if want is not None and text != want:
            self.viol.append(("C14/render-mismatch", "render(%r) gave %r, the served templates should give %r" % (uri, text, want)))
        self.log.add("render", uri, text)

    # ---- liveness once faults have stopped
    def converge(self):
        """Heal everything, let >= 1 s pass, then every URI with a file must be
        served with its current content within 2 calls (DESIGN 3/C14)."""
        w = self.world
        w.begin_op(len(self.trace["ops"]))
        for p in list(w.unreadable):
            w.unreadable.discard(p)
            self.model.unreadable.discard(p)
            self.model.file_touched(p)
        # a backwards clock step may have left files dated in the future
        latest = max([f.mtime for f in self.model.files.values()] + [self.clock.now, self.clock.high])
        if latest > self.clock.now:
            self.clock.step(latest - self.clock.now)
        self.clock.advance(2.0)
        # every file gets new, healthy content with an mtime >= 1 s after anything compiled so far
        for p, f in sorted(self.model.files.items()):
            i, d, _ = f.tag
            self.write_file(i, d, "now", "ok")
        self.clock.advance(2.0)
        if not self.cfg["fs_checks"]:
            return
        for us in self.uspecs:
            uri = us["uri"]
            if uri in self.model.puts:
                continue
            p, _ = self.model.expected_path(uri)
            if p is None:
                continue
            want = self.model.files[p].tag
            got = None
            for attempt in range(2):
                w.enabled = True
                try:
                    self.lookup.get_template(uri)
                except SeamCapExceeded:
                    raise
                except Exception:
                    pass
                finally:
                    w.enabled = False
                out = self.records[-1][1]
                got = out
                if out[0] == "served" and out[2] == want:
                    break
            else:
                ent = self.model.cache.get(uri)
                if ent is not None and ent.kind == "file" and ent.path != p:
                    continue  # a put_template file entry legitimately shadows the directory search
                self.viol.append(("C14/lookup-poisoned",
                                  "after all faults stopped and 4 s passed, %r is still not served with current content %s (last: %s)"
                                  % (uri, want, got[:1] + got[2:3] if got[0] == "served" else got[1][:1])))


def execute(trace, root):
    h = Harness(trace, root)
    cap = None
    try:
        for j, op in enumerate(trace["ops"]):
            h.do(j, op)
        h.converge()
    except SeamCapExceeded as e:
        cap = str(e)
        h.viol.append(("C14/step-cap", "run exceeded the seam-call cap: %s" % e))
    # containment tripwire (C09 is not claimed; a breach is a violation of C14's own directory clause):
    # the sentinel outside every configured directory must never be opened
    for rel in h.world.opened:
        if rel.startswith("/outside"):
            h.viol.append(("C14/outside-root", "a file outside every configured directory was opened: %s" % rel))
            break
    probes = dict(h.probes)
    for k, v in h.model.probes.items():
        probes[k] = probes.get(k, 0) + v
    faults = {}
    for (kind, label, relp, op) in h.world.fired:
        faults[kind] = faults.get(kind, 0) + 1
    for k in list(probes):
        if k.startswith("fault:clock"):
            faults[k[6:]] = probes[k]
    seen = set()
    violations = []
    for sig, msg in h.viol:
        if sig in seen:
            continue
        seen.add(sig)
        violations.append({"signature": sig, "message": msg})
    ops = trace["ops"]
    nontrivial = sum(1 for o in ops if o[0] in ("get", "render", "has")) >= 2 and any(
        o[0] in ("write", "relink", "break", "delete", "advance", "advance_frac", "put_string", "put_template", "restart") for o in ops)
    return {
        "violations": violations,
        "digest": h.log.digest(),
        "counters": {"faults_fired": faults, "probes": probes},
        "hashes": {"model_states": list(h.state_hashes)},
        "totals": {"ops": len(ops), "get_calls": len(h.records), "constructions": h.ncons,
                   "fault_free_runs": 0 if (trace["faults"] or any(o[0] == "clockstep" for o in ops)) else 1,
                   "seam_calls": h.world.total_calls},
        "sim_seconds": h.clock.covered,
        "nontrivial": nontrivial,
        "case_hash": stable_hash([trace["config"], trace["ops"], trace["files"], trace["faults"]]),
        "sample": {"config": trace["config"], "uspecs": trace["uspecs"], "ops": ops[:12], "faults": trace["faults"],
                   "events_tail": [list(e) for e in h.log.events[-6:]]},
    }
