"""Install the simulator's seams on Mako by rebinding module globals from
outside (no hook in /repo is needed; the repo's own tests do the same with
mock.patch("mako.codegen.time")).  See DESIGN.md 2.2 for the table."""

import shutil as _real_shutil
import tempfile as _real_tempfile
import time as _real_time
import timeit as _real_timeit

from .core import TimeShim, TimeitShim
from .fs import OSFacade, ShutilFacade, TempfileFacade

_saved = {}


def install(world, clock, patch_cache_clocks=False):
    import mako.codegen
    import mako.compat
    import mako.lookup
    import mako.template
    import mako.util

    osf = OSFacade(world)
    tshim = TimeShim(clock, _real_time)

    def setg(mod, name, value):
        key = (mod.__name__, name)
        if key not in _saved:
            _saved[key] = (mod, name, mod.__dict__.get(name, _MISSING))
        setattr(mod, name, value)

    setg(mako.codegen, "time", tshim)
    setg(mako.util, "timeit", TimeitShim(clock, _real_timeit))
    setg(mako.lookup, "os", osf)
    setg(mako.template, "os", osf)
    setg(mako.util, "os", osf)
    setg(mako.util, "open", world.open)
    setg(mako.template, "open", world.open)
    setg(mako.template, "tempfile", TempfileFacade(world, _real_tempfile))
    setg(mako.template, "shutil", ShutilFacade(world, _real_shutil))

    # any other mako module that binds the stdlib clock modules (a refactoring may move a clock read):
    # `time` reads the simulated wall clock (which clock faults can step back), `timeit` the monotonic one
    import sys as _sys

    for name, mod in list(_sys.modules.items()):
        if mod is None or not (name == "mako" or name.startswith("mako.")):
            continue
        if mod.__dict__.get("time") is _real_time:
            setg(mod, "time", tshim)
        if mod.__dict__.get("timeit") is _real_timeit:
            setg(mod, "timeit", TimeitShim(clock, _real_timeit))

    real_load = _saved.get(("mako.compat", "load_module"), (None, None, mako.compat.load_module))[2]

    def load_module(module_id, path):
        return world.load_module(real_load, module_id, path)

    setg(mako.compat, "load_module", load_module)

    if patch_cache_clocks:
        install_cache_clocks(clock)
    return osf


def install_cache_clocks(clock):
    tshim = TimeShim(clock, _real_time)

    def setg(mod, name, value):
        key = (mod.__name__, name)
        if key not in _saved:
            _saved[key] = (mod, name, mod.__dict__.get(name, _MISSING))
        setattr(mod, name, value)

    try:
        import beaker.container
        import beaker.cache

        setg(beaker.container, "time", tshim)
    except ImportError:
        pass
    try:
        import dogpile.cache.region
        import dogpile.cache.api

        import dogpile.lock

        setg(dogpile.cache.region, "time", tshim)
        setg(dogpile.lock, "time", tshim)
        if hasattr(dogpile.cache.api, "time"):
            setg(dogpile.cache.api, "time", tshim)
    except ImportError:
        pass


class _Missing:
    pass


_MISSING = _Missing()


def uninstall():
    for (mod, name, old) in list(_saved.values()):
        if old is _MISSING:
            try:
                delattr(mod, name)
            except AttributeError:
                pass
        else:
            setattr(mod, name, old)
    _saved.clear()
