"""Shared simulator core: seeded PRNG derivation, simulated clock, event log /
digest, violation records, probe counters.

Rules (DESIGN.md 2.1):
 * every random choice of a run comes from ONE random.Random seeded with a
   *string* (SHA-512 based seeding, independent of PYTHONHASHSEED);
 * logging never draws from the PRNG and never reads a real clock.
"""

import hashlib
import json
import random


def run_seed(verif_seed, engine, index):
    return "%d:%s:%d" % (int(verif_seed), engine, int(index))


def mkrng(seed_string):
    return random.Random(str(seed_string))


class SimClock:
    """Float seconds.  Moves only by advance(), by the per-run auto-tick that
    seam calls add, and by clock faults."""

    def __init__(self, start=1_000_000_000.0, auto_tick=0.0):
        self.now = float(start)
        self.start = float(start)
        self.auto_tick = float(auto_tick)
        self.covered = 0.0  # sum of all forward movement ("simulated time covered")
        self._mono_reads = 0
        self.high = float(start)  # highest wall-clock value ever shown

    def advance(self, dt):
        self.now += dt
        if dt > 0:
            self.covered += dt
        if self.now > self.high:
            self.high = self.now

    def step(self, delta):
        """clock fault: the wall clock jumps; monotonic time does not"""
        self.now += delta
        if self.now > self.high:
            self.high = self.now

    def tick(self):
        if self.auto_tick:
            self.advance(self.auto_tick)

    # -- the objects rebinding `time` / `timeit` in mako modules --------------
    def time(self):
        return self.now

    def default_timer(self):
        # strictly increasing, like perf_counter at ns resolution: LRU recency
        # stamps never tie.  100 ns per read on top of simulated time.
        self._mono_reads += 1
        # arbitrary epoch (like perf_counter): keeps float resolution far below 100 ns
        return self.covered + 1000.0 + self._mono_reads * 1e-7

    perf_counter = default_timer
    monotonic = default_timer


class TimeShim:
    """Stands in for the `time` module inside mako.codegen (and cache backends)."""

    def __init__(self, clock, real):
        self._clock = clock
        self._real = real

    def time(self):
        return self._clock.time()

    def __getattr__(self, name):
        return getattr(self._real, name)


class TimeitShim:
    def __init__(self, clock, real):
        self._clock = clock
        self._real = real

    def default_timer(self):
        return self._clock.default_timer()

    def __getattr__(self, name):
        return getattr(self._real, name)


class EventLog:
    """Ordered event log with an incremental SHA-256.  Events are tuples of
    JSON-representable scalars; object addresses and real paths/time never go
    in (paths are logged relative to the scratch root)."""

    def __init__(self, keep=4000):
        self._h = hashlib.sha256()
        self.n = 0
        self.keep = keep
        self.events = []

    def add(self, *ev):
        s = json.dumps(ev, sort_keys=True, default=str)
        self._h.update(s.encode("utf-8"))
        self._h.update(b"\n")
        self.n += 1
        if len(self.events) < self.keep:
            self.events.append(ev)

    def digest(self):
        return "sha256:" + self._h.hexdigest()


class Violation:
    """One oracle failure.  `signature` = <property>/<class>[:<detail>]; never
    contains a seed, a path or a counter (DESIGN.md appendix B)."""

    def __init__(self, signature, message, step=None):
        self.signature = signature
        self.message = message
        self.step = step

    def as_dict(self):
        return {"signature": self.signature, "message": self.message, "step": self.step}


class HarnessError(Exception):
    """The simulator itself misbehaved (divergent replay, watchdog, unseamed
    path...).  Exit code 2; never a pass, never a VIOLATION."""


class Probes(dict):
    def hit(self, name, n=1):
        self[name] = self.get(name, 0) + n


def stable_hash(obj):
    return hashlib.sha256(
        json.dumps(obj, sort_keys=True, default=str).encode("utf-8")
    ).hexdigest()[:16]


def merge_counts(dst, src):
    for k, v in src.items():
        dst[k] = dst.get(k, 0) + v
    return dst
