"""A long-lived "Mako process" for the C08 engine: an interpreter started with
its own PYTHONHASHSEED that constructs and renders templates on request.
Protocol: one JSON request per line on stdin, one JSON reply per line on stdout."""

import io
import json
import os
import sys


def describe_exc(e):
    return {"status": "raised", "exc": type(e).__name__, "msg": str(e)[:200]}


def battery(req):
    """Construct one template on one path and run every rendering path on it."""
    import mako.cmd
    import mako.compat
    import mako.lookup
    import mako.runtime
    import mako.template

    path = req["path"]
    uri = req["uri"]
    src = req["src"]  # absolute path of the source file
    srcdir = req["srcdir"]
    enc = req["encoding"]
    ctx = req["ctx"]
    out = {"path": path, "hashseed": os.environ.get("PYTHONHASHSEED")}
    lookup_kw = {"directories": list(req.get("dirs") or [srcdir])}
    oenc = req.get("output_encoding")
    tkw = {}
    if oenc:
        lookup_kw["output_encoding"] = oenc
        tkw["output_encoding"] = oenc
    if req.get("input_encoding"):
        lookup_kw["input_encoding"] = req["input_encoding"]
    if req.get("noloop"):
        lookup_kw["enable_loop"] = False
        tkw["enable_loop"] = False
    if req.get("encoding_errors"):
        lookup_kw["encoding_errors"] = req["encoding_errors"]
        tkw["encoding_errors"] = req["encoding_errors"]
    try:
        if path == "text":
            with open(src, "rb") as f:
                text = f.read().decode(enc)
            lk = mako.lookup.TemplateLookup(**lookup_kw)
            t = mako.template.Template(text, uri=uri, lookup=lk, input_encoding=req.get("input_encoding"), **tkw)
        elif path == "file":
            lk = mako.lookup.TemplateLookup(**lookup_kw)
            t = mako.template.Template(filename=src, uri=uri, lookup=lk, input_encoding=req.get("input_encoding"), **tkw)
        elif path in ("moddir", "moddir-reuse"):
            lk = mako.lookup.TemplateLookup(module_directory=req["moddir"], **lookup_kw)
            t = mako.template.Template(filename=src, uri=uri, lookup=lk, module_directory=req["moddir"],
                                       input_encoding=req.get("input_encoding"), **tkw)
        elif path == "lookup":
            kw = dict(lookup_kw)
            if req.get("moddir"):
                kw["module_directory"] = req["moddir"]
            if req.get("modulename_callable"):
                md = req["moddir"]
                # an injective user-supplied naming scheme
                kw["modulename_callable"] = lambda filename, u: os.path.join(md, "cb_" + u.encode("utf-8").hex() + ".py")
            lk = mako.lookup.TemplateLookup(**kw)
            t = lk.get_template(uri)
        elif path == "modtemplate":
            lk = mako.lookup.TemplateLookup(module_directory=req["moddir"], **lookup_kw)
            mod = mako.compat.load_module("mt_" + "".join(c if c.isalnum() else "_" for c in uri), req["modfile"])
            t = mako.template.ModuleTemplate(mod, module_filename=req["modfile"], template_filename=src, lookup=lk,
                                             **{k_: v_ for k_, v_ in tkw.items() if k_ != "enable_loop"})  # enable_loop comes from the module
        else:
            raise ValueError(path)
    except Exception as e:
        out["construct"] = describe_exc(e)
        return out, None
    out["construct"] = {"status": "ok"}
    renders = {}

    def attempt(name, fn):
        try:
            r = fn()
            if isinstance(r, bytes):
                # render() with an output encoding: must decode to what render_unicode() gives
                r = r.decode(oenc or "utf-8")
            renders[name] = {"status": "ok", "text": r}
        except Exception as e:
            renders[name] = describe_exc(e)

    attempt("render", lambda: t.render(**ctx))
    attempt("render_unicode", lambda: t.render_unicode(**ctx))

    def rc():
        buf = io.StringIO()
        c = mako.runtime.Context(buf, **ctx)
        t.render_context(c)
        return buf.getvalue()

    attempt("render_context", rc)
    for d in req.get("defs", ()):
        attempt("get_def:" + d, lambda d=d: t.get_def(d).render(**ctx))
    if path == "file" and req.get("cmd"):
        def cmd():
            old = sys.stdout
            sys.stdout = io.StringIO()
            try:
                argv = []
                for k, v in sorted(ctx.items()):
                    argv += ["--var", "%s=%s" % (k, v)]
                for d_ in (req.get("dirs") or [srcdir]):
                    argv += ["--template-dir", d_]
                argv += [src]
                try:
                    mako.cmd.cmdline(argv)
                except SystemExit as e:
                    raise RuntimeError("mako-render exited %r" % (e.code,))
                return sys.stdout.getvalue()
            finally:
                sys.stdout = old

        attempt("mako-render", cmd)
    out["renders"] = renders
    info = {}
    try:
        info["source"] = t.source
    except Exception as e:
        info["source"] = "raised %s" % type(e).__name__
    try:
        code = t.code
        info["code_uri"] = ("_template_uri = %r" % uri) in code
        info["code_marker"] = req["marker"] in code
        mf = getattr(t.module, "__file__", None)
        if path in ("moddir", "moddir-reuse", "modtemplate", "lookup") and mf and os.path.exists(mf):
            import re as _re

            with open(mf, "rb") as f:
                raw = f.read()
            m = _re.match(rb"[ \t\f]*#.*?coding[:=][ \t]*([-\w.]+)", raw.split(b"\n", 1)[0])
            info["code_is_module_file"] = (code == raw.decode(m.group(1).decode("ascii") if m else "utf-8"))
    except Exception as e:
        info["code_uri"] = "raised %s" % type(e).__name__
    try:
        info["list_defs"] = sorted(t.list_defs())
        info["has_def"] = {d: t.has_def(d) for d in list(req.get("defs", ())) + ["nosuchdef"]}
    except Exception as e:
        info["list_defs"] = "raised %s" % type(e).__name__
    out["info"] = info
    return out, t


def main():
    keep = []
    sys.path.insert(0, os.environ.get("VERIF_DIR", "/verif"))
    if os.environ.get("VERIF_MAKO_PATH"):
        sys.path.insert(0, os.environ["VERIF_MAKO_PATH"])
    import mako.template  # noqa (warm)

    real_out = sys.stdout
    for line in sys.stdin:
        req = json.loads(line)
        if req.get("op") == "quit":
            break
        try:
            if req["op"] == "battery":
                out, t = battery(req)
                if req.get("keep") and t is not None:
                    keep.append((req["uri"], t))
                    # earlier templates of this process: their source/code must still be their own
                    again = []
                    for (u, old) in keep[:-1]:
                        try:
                            again.append([u, old.source, (("_template_uri = %r" % u) in old.code)])
                        except Exception as e:
                            again.append([u, "raised %s" % type(e).__name__, None])
                    out["earlier"] = again
            else:
                out = {"error": "unknown op"}
        except Exception as e:
            import traceback

            out = {"error": traceback.format_exc()[-1500:]}
        real_out.write(json.dumps(out) + "\n")
        real_out.flush()


if __name__ == "__main__":
    main()
