"""./check <property> [--tier quick|thorough] | --replay <file> | selftest-determinism

Exit codes: 0 property held on everything explored (possibly with
KNOWN-FINDING lines); 1 with `VIOLATION property=<id> replay=<path>`;
2 harness error (divergent replay, watchdog, crashed worker) -- never 0 after
a watchdog kill, never a VIOLATION for a harness problem.
"""

import argparse
import importlib
import json
import os
import subprocess
import sys
import time

VERIF = os.path.dirname(os.path.dirname(os.path.abspath(__file__)))
# maintenance runs (mutant self-tests) write evidence/replays elsewhere and import a patched copy of mako
OUT = os.environ.get("VERIF_OUT") or VERIF
if os.environ.get("VERIF_MAKO_PATH"):
    sys.path.insert(0, os.environ["VERIF_MAKO_PATH"])

REGISTRY = {
    "C17": {"module": "engines.c17_cache", "level": "exploration", "quick": 20000, "thorough": 400000,
            "per_run_timeout": 120.0, "shrink_budget": 40.0},
    "C08": {"module": "engines.c08_paths", "level": "exploration", "quick": 1200, "thorough": 40000,
            "per_run_timeout": 180.0, "shrink_budget": 60.0, "determinism_sample": 48},
    "C13": {"module": "engines.c13_unwind", "level": "fault_enumeration", "quick": 2500, "thorough": 100000,
            "per_run_timeout": 120.0, "shrink_budget": 60.0},
    "C14": {"module": "engines.c14_lookup", "level": "exploration", "quick": 36000, "thorough": 700000},
    "C15": {"module": "engines.c15_modfiles", "level": "fault_enumeration", "quick": 1500, "thorough": 30000,
            "per_run_timeout": 180.0, "determinism_sample": 48, "shrink_budget": 60.0},
    "C16": {"module": "engines.c16_threads", "level": "exploration", "quick": 12000, "thorough": 400000,
            "per_run_timeout": 300.0, "shrink_budget": 40.0, "determinism_sample": 240},
}

PINNED_HASHSEED = "0"


def reexec_pinned():
    """Mako's code generator iterates Python sets, so the hash seed is an input of the
    system under test: pin it (DESIGN 2.1).  VERIF_HASHSEED overrides for the
    thorough tier's other-hash-seed batches."""
    want = os.environ.get("VERIF_HASHSEED", PINNED_HASHSEED)
    if os.environ.get("PYTHONHASHSEED") != want or os.environ.get("PYTHONDONTWRITEBYTECODE") != "1":
        env = dict(os.environ)
        env["PYTHONHASHSEED"] = want
        env["PYTHONDONTWRITEBYTECODE"] = "1"
        os.execve(sys.executable, [sys.executable, "-m", "vsim.cli"] + sys.argv[1:], env)


def load_known():
    if os.environ.get("VERIF_IGNORE_KNOWN"):
        return {}  # maintenance: regenerate the replay files of the known findings
    path = os.path.join(VERIF, "known_findings.json")
    try:
        with open(path) as f:
            data = json.load(f)
    except FileNotFoundError:
        return {}
    return {k["signature"]: k for k in data.get("known", [])}


def warm():
    import mako.lookup, mako.template, mako.runtime, mako.cache, mako.codegen, mako.lexer  # noqa
    import mako.ext.beaker_cache  # noqa
    try:
        import beaker.cache, beaker.container  # noqa
    except ImportError:
        pass
    try:
        import dogpile.cache  # noqa
    except ImportError:
        pass


def write_replay(prop, engine, trace, violation, result, minimised_from=None):
    from .core import stable_hash

    sig = violation["signature"]
    safe = "".join(c if c.isalnum() else "-" for c in sig.split("/", 1)[-1])[:60]
    name = "%s-%s-%s.json" % (prop, safe, stable_hash(trace)[:10])
    path = os.path.join(OUT, "replays", name)
    doc = dict(trace)
    doc.update({
        "format": 1, "property": prop, "engine": engine.NAME, "signature": sig,
        "pythonhashseed": int(os.environ.get("PYTHONHASHSEED", "0")),
        "expect": {"event_digest": result.get("digest"), "violation": violation["message"]},
    })
    if minimised_from:
        doc["minimised_from"] = minimised_from
    os.makedirs(os.path.dirname(path), exist_ok=True)
    with open(path, "w") as f:
        json.dump(doc, f, indent=1, sort_keys=True, default=str)
    return path


def replay_file(path, quiet=False):
    from . import runner

    with open(path) as f:
        doc = json.load(f)
    engine = importlib.import_module("engines." + doc["engine"])
    want_hs = str(doc.get("pythonhashseed", 0))
    if os.environ.get("PYTHONHASHSEED") != want_hs:
        env = dict(os.environ)
        env["PYTHONHASHSEED"] = want_hs
        env["VERIF_HASHSEED"] = want_hs
        os.execve(sys.executable, [sys.executable, "-m", "vsim.cli"] + sys.argv[1:], env)
    warm()
    status, res = runner.execute_isolated(engine, doc, 120.0)
    if status != "ok":
        print("HARNESS-ERROR replay %s: %s %s" % (path, status, str(res)[-2000:]))
        return 2
    sigs = [v["signature"] for v in res["violations"]]
    if doc["signature"] not in sigs:
        print("REPLAY-DIVERGED %s: expected %s, got %s" % (path, doc["signature"], sigs))
        return 2
    if res.get("digest") != doc["expect"]["event_digest"]:
        print("REPLAY-DIVERGED %s: same violation but event digest differs (%s vs %s)"
              % (path, res.get("digest"), doc["expect"]["event_digest"]))
        return 2
    msg = [v["message"] for v in res["violations"] if v["signature"] == doc["signature"]][0]
    if not quiet:
        print("reproduced %s: %s" % (doc["signature"], msg))
        print("VIOLATION property=%s replay=%s" % (doc["property"], path))
    return 1


def verify_replay_fresh(path):
    """Replay in a fresh interpreter; must reproduce (exit 1)."""
    env = dict(os.environ)
    p = subprocess.run([sys.executable, "-m", "vsim.cli", "--replay", path, "--quiet"], cwd=VERIF, env=env,
                       stdout=subprocess.PIPE, stderr=subprocess.STDOUT, timeout=300)
    return p.returncode == 1, p.stdout.decode("utf-8", "replace")[-1500:]


def run_check(prop, tier, runs=None, workers=16, seed=None, start=0, digests_out=None):
    from . import runner, shrink

    spec = REGISTRY[prop]
    engine = importlib.import_module(spec["module"])
    from . import fs as _fs

    _fs.sweep_stale_scratch()
    warm()
    if hasattr(engine, "warm"):
        engine.warm()
    seed = int(os.environ.get("VERIF_SEED", "1")) if seed is None else seed
    n = runs if runs is not None else spec[tier]
    t_start = time.time()
    known = load_known()
    budget = spec.get(tier + "_budget")
    agg = runner.run_batch(engine, seed, tier, n, workers=workers, start_index=start, wall_budget=budget,
                           per_run_timeout=spec.get("per_run_timeout", 60.0), keep_digests=True)
    wall_main = time.time() - t_start
    if digests_out:
        with open(digests_out, "w") as f:
            json.dump({str(k): v for k, v in agg.digests.items()}, f)

    # --- determinism self-test: re-run a sample at another worker count, compare event digests
    sample_n = min(n, spec.get("determinism_sample", 96 if tier == "quick" else 1024))
    agg2 = runner.run_batch(engine, seed, tier, sample_n, workers=5, start_index=start,
                            per_run_timeout=spec.get("per_run_timeout", 60.0), keep_digests=True)
    divergent = [i for i, d in agg2.digests.items() if agg.digests.get(i) not in (None, d)]
    determinism = {"seeds_rerun": len(agg2.digests), "worker_counts": [workers, 5], "divergences": len(divergent),
                   "pythonhashseed": os.environ.get("PYTHONHASHSEED")}

    exit_code = 0
    shrink_total = spec.get("shrink_total", 150.0)
    t_shrink0 = time.time()
    lines = []
    known_hit = {}
    reported = []
    for sig in sorted(agg.violations):
        ent = agg.violations[sig]
        size, idx, trace, v = ent["cases"][0]
        if sig in known:
            known_hit[sig] = ent["count"]
            lines.append("KNOWN-FINDING: property=%s %s -- %s (hit in %d runs; e.g. run %d: %s)"
                         % (prop, sig, known[sig]["what"], ent["count"], idx, v["message"][:200]))
            continue
        # the shrinking budget is shared between the signatures of one check run
        left = max(5.0, shrink_total - (time.time() - t_shrink0))
        small, tries = shrink.shrink(engine, trace, sig, budget_s=min(spec.get("shrink_budget", 25.0), left))
        res = shrink.fails_with(engine, small, sig)
        if res is None:  # should not happen; fall back to the original
            small, res = trace, shrink.fails_with(engine, trace, sig)
        if res is None:
            agg.harness_errors.append({"what": "unreproducible", "detail": "run %d signature %s did not reproduce" % (idx, sig)})
            continue
        if res.get("trace_patch"):
            # make the replay file explicit: the schedule actually taken, not the seed that produced it
            explicit = dict(small)
            explicit.update(res["trace_patch"])
            res2 = shrink.fails_with(engine, explicit, sig)
            if res2 is not None:
                small, res = explicit, res2
        vv = [x for x in res["violations"] if x["signature"] == sig][0]
        mf = {"size": size, "shrink_tries": tries, "run_index": idx}
        if hasattr(engine, "trace_size"):
            mf["size_after"] = engine.trace_size(small)
        path = write_replay(prop, engine, small, vv, res, mf)
        okr, out = verify_replay_fresh(path)
        if not okr:
            agg.harness_errors.append({"what": "replay-diverged", "detail": out})
        lines.append("VIOLATION property=%s replay=%s" % (prop, path))
        lines.append("  signature=%s runs_hit=%d first_run=%d: %s" % (sig, ent["count"], idx, vv["message"][:300]))
        reported.append({"signature": sig, "count": ent["count"], "replay": path, "message": vv["message"][:300]})
        exit_code = 1
    if divergent:
        agg.harness_errors.append({"what": "nondeterminism", "detail": "event digests differ for run indices %r" % divergent[:10]})
    # thorough tier: further batches of fresh run indices in separate interpreters under other hash seeds
    # (Mako's code generator iterates sets, so the hash seed is an input of the system under test)
    other = []
    if tier == "thorough" and runs is None and os.environ.get("VERIF_HASHSEED") is None and not os.environ.get("VERIF_NO_HASHSEED_BATCHES"):
        import tempfile, shutil
        for k, hs in enumerate(spec.get("thorough_hashseeds", (3, 7))):
            n_extra = max(1, n // 8)
            outdir = tempfile.mkdtemp(prefix="mako-verif-hs-")
            env = dict(os.environ, VERIF_HASHSEED=str(hs), VERIF_OUT=outdir, PYTHONDONTWRITEBYTECODE="1")
            env.pop("PYTHONHASHSEED", None)
            r = subprocess.run([sys.executable, "-m", "vsim.cli", prop, "--tier", "thorough", "--runs", str(n_extra),
                                "--start", str(start + n + k * n_extra), "--workers", str(workers)],
                               cwd=VERIF, env=env, stdout=subprocess.PIPE, stderr=subprocess.STDOUT)
            out = r.stdout.decode("utf-8", "replace")
            rec = {"pythonhashseed": hs, "runs": n_extra, "first_run_index": start + n + k * n_extra, "exit": r.returncode}
            if r.returncode == 1:
                # keep the replay files and report the violations as our own
                os.makedirs(os.path.join(OUT, "replays"), exist_ok=True)
                for ln in out.splitlines():
                    if ln.startswith("VIOLATION property="):
                        src = ln.split("replay=", 1)[1].strip()
                        dst = os.path.join(OUT, "replays", os.path.basename(src))
                        try:
                            shutil.copy(src, dst)
                        except OSError:
                            dst = src
                        lines.append("VIOLATION property=%s replay=%s" % (prop, dst))
                    elif ln.startswith("  signature="):
                        lines.append(ln + "  [PYTHONHASHSEED=%s]" % hs)
                        reported.append({"signature": ln.split("signature=", 1)[1].split(" ", 1)[0], "pythonhashseed": hs})
                exit_code = 1
            elif r.returncode != 0:
                agg.harness_errors.append({"what": "hashseed-batch", "detail": "PYTHONHASHSEED=%s exit %d: %s" % (hs, r.returncode, out[-800:])})
            other.append(rec)
            shutil.rmtree(outdir, ignore_errors=True)
    determinism["other_hashseed_batches"] = other
    wall = time.time() - t_start
    ev = build_evidence(prop, spec, engine, tier, seed, agg, wall, wall_main, determinism, known_hit, reported, n, start)
    os.makedirs(os.path.join(OUT, "evidence"), exist_ok=True)
    with open(os.path.join(OUT, "evidence", prop + ".json"), "w") as f:
        json.dump(ev, f, indent=1, sort_keys=True, default=str)
    for ln in lines:
        print(ln)
    print("%s %s: %d runs in %.1fs (%.0f runs/h), %d distinct non-trivial cases, %d violation signature(s), %d known, %d harness error(s)"
          % (prop, tier, agg.runs, wall, agg.runs / max(wall_main, 1e-9) * 3600, len(agg.case_hashes),
             len(reported), len(known_hit), len(agg.harness_errors)))
    if agg.harness_errors:
        for he in agg.harness_errors[:5]:
            print("HARNESS-ERROR %s: %s" % (he.get("what"), str(he.get("detail"))[-1200:]))
        if exit_code == 0:
            exit_code = 2
    return exit_code


def build_evidence(prop, spec, engine, tier, seed, agg, wall, wall_main, determinism, known_hit, reported, n, start):
    probes = agg.counters.get("probes", {})
    expected_probes = getattr(engine, "EXPECTED_PROBES", ())
    cov = {
        "evaluations": agg.runs,
        "distinct_nontrivial": len(agg.case_hashes),
        "rule": getattr(engine, "RULE", ""),
        "samples": agg.samples[:3] or [{"note": "no sample recorded"}],
        "exhaustive": False,
        "runs_per_hour": int(agg.runs / max(wall_main, 1e-9) * 3600),
        "seeds": {"verif_seed": seed, "first_run_index": start, "last_run_index": start + n - 1, "count": agg.runs,
                  "run_seed_rule": "run_seed = '<VERIF_SEED>:<engine>:<run_index>' -> random.Random(str)"},
        "runs_skipped_by_wall_budget": agg.skipped,
        "sim_seconds_covered": round(agg.sim_seconds, 3),
        "faults_fired": agg.counters.get("faults_fired", {}),
        "fault_free_runs": agg.totals.get("fault_free_runs", 0),
        "totals": agg.totals,
        "probes": probes,
        "probes_at_zero": sorted(p for p in expected_probes if not probes.get(p)),
        "distinct": {name: len(s) for name, s in agg.sets.items()},
        "components": getattr(engine, "COMPONENTS", {}),
        "determinism_selftest": determinism,
        "known_findings_hit": known_hit,
        "violations_reported": reported,
        "harness_errors": agg.harness_errors[:10],
    }
    extra = getattr(engine, "evidence_extra", None)
    if extra is not None:
        cov.update(extra(agg))
    return {
        "property_id": prop,
        "tier": tier,
        "seed": seed,
        "level": spec["level"],
        "coverage": cov,
        "assumptions": list(getattr(engine, "ASSUMPTIONS", ())),
        "wall_s": round(wall, 2),
        "violations": len(reported),
    }


def selftest_findings():
    """Every replay kept under findings/ whose signature is a *known* finding must still reproduce on the
    current tree (a known finding that no longer reproduces is stale and should be removed from
    known_findings.json); replays of *fixed* defects must NOT reproduce."""
    known = load_known()
    bad = 0
    fdir = os.path.join(VERIF, "findings")
    for name in sorted(os.listdir(fdir)):
        if not name.endswith(".json"):
            continue
        path = os.path.join(fdir, name)
        with open(path) as f:
            sig = json.load(f).get("signature")
        r = subprocess.run([sys.executable, "-m", "vsim.cli", "--replay", path, "--quiet"], cwd=VERIF,
                           stdout=subprocess.PIPE, stderr=subprocess.STDOUT)
        reproduced = r.returncode == 1
        want = sig in known
        ok = reproduced == want
        print("FINDING %-44s %-50s %s (%s)" % (name, sig, "reproduces" if reproduced else "does not reproduce",
                                              ("known finding: ok" if want else "fixed: ok") if ok else "UNEXPECTED"))
        bad += 0 if ok else 1
    return 2 if bad else 0


def selftest_determinism(names, runs_override=None):
    """Large-sample determinism self-test: the same run indices executed in separate interpreters, at
    different worker counts and (for engines whose event log does not depend on set order) under
    another PYTHONHASHSEED; all event digests must agree.  Maintenance command."""
    import tempfile

    plan = {"C14": (4000, True), "C15": (400, True), "C17": (4000, True), "C13": (300, True), "C08": (96, True), "C16": (1500, False)}
    bad = 0
    for prop in sorted(plan):
        if names and prop not in names:
            continue
        n, cross_hash = plan[prop]
        n = runs_override or n
        outs = []
        variants = [("0", 16), ("0", 7)] + ([("7", 11)] if cross_hash else [])
        for hs, workers in variants:
            fd, path = tempfile.mkstemp(prefix="digests-", suffix=".json")
            os.close(fd)
            env = dict(os.environ, VERIF_HASHSEED=hs, VERIF_OUT=tempfile.mkdtemp(prefix="mako-verif-det-"), PYTHONDONTWRITEBYTECODE="1")
            env.pop("PYTHONHASHSEED", None)
            subprocess.run([sys.executable, "-m", "vsim.cli", prop, "--runs", str(n), "--workers", str(workers), "--digests-out", path],
                           cwd=VERIF, env=env, stdout=subprocess.PIPE, stderr=subprocess.STDOUT)
            with open(path) as f:
                outs.append((hs, workers, json.load(f)))
            os.remove(path)
            import shutil
            shutil.rmtree(env["VERIF_OUT"], ignore_errors=True)
        ref = outs[0][2]
        for hs, workers, d in outs[1:]:
            diff = [k for k in ref if d.get(k) != ref[k]]
            print("DETERMINISM %s: %d runs, hashseed %s / %d workers vs hashseed 0 / 16 workers: %d divergent digests%s"
                  % (prop, len(ref), hs, workers, len(diff), (" e.g. run %s" % diff[0]) if diff else ""))
            bad += len(diff)
    return 2 if bad else 0


def selftest_mutants(names, runs_override=None):
    """Sensitivity self-test: apply each mutants/*.patch to a scratch copy of /repo's mako package
    (on tmpfs, removed afterwards), point the owning check at it and require a VIOLATION whose
    signature starts with one of the expected prefixes.  Maintenance command, not a property check."""
    import shutil
    import tempfile

    with open(os.path.join(VERIF, "mutants", "index.json")) as f:
        index = json.load(f)
    # the independently written changes kept under seeded/<id>/ are part of the same self-test
    sdir = os.path.join(VERIF, "seeded")
    for sid in sorted(os.listdir(sdir)) if os.path.isdir(sdir) else ():
        mp = os.path.join(sdir, sid, "meta.json")
        if os.path.exists(mp):
            with open(mp) as f:
                meta = json.load(f)
            prop = meta.get("check") or meta["property"]  # a few are caught by a neighbouring property's check
            index["../seeded/%s/patch.diff" % sid] = {"properties": [prop], "expect": {prop: meta["caught_by"]["signatures"]},
                                                     "runs": {prop: meta.get("runs")} if meta.get("runs") else {},
                                                     "expected_missed": meta.get("expected") == "missed"}
    base = "/dev/shm" if os.path.isdir("/dev/shm") else tempfile.gettempdir()
    failures = 0
    rows = []
    for name in sorted(index):
        if names and name not in names and not any(n in name for n in names):
            continue
        meta = index[name]
        work = tempfile.mkdtemp(prefix="mako-verif-mutant-", dir=base)
        try:
            shutil.copytree("/repo/mako", os.path.join(work, "mako"), ignore=shutil.ignore_patterns("__pycache__"))
            p = subprocess.run(["patch", "-p1", "-s", "-d", work, "-i", os.path.join(VERIF, "mutants", name)],
                               stdout=subprocess.PIPE, stderr=subprocess.STDOUT)
            if p.returncode != 0:
                print("MUTANT %s: patch does not apply: %s" % (name, p.stdout.decode()[-300:]))
                failures += 1
                continue
            for prop in meta["properties"]:
                env = dict(os.environ)
                env["VERIF_MAKO_PATH"] = work
                env["VERIF_OUT"] = os.path.join(work, "out")
                env["PYTHONDONTWRITEBYTECODE"] = "1"
                cmd = [sys.executable, "-m", "vsim.cli", prop, "--tier", "quick"]
                runs = runs_override or meta.get("runs", {}).get(prop)
                if runs:
                    cmd += ["--runs", str(runs)]
                t0 = time.time()
                r = subprocess.run(cmd, cwd=VERIF, env=env, stdout=subprocess.PIPE, stderr=subprocess.STDOUT)
                out = r.stdout.decode("utf-8", "replace")
                sigs = [ln.split("signature=", 1)[1].split(" ", 1)[0] for ln in out.splitlines() if "signature=" in ln]
                want = meta.get("expect", {}).get(prop, [])
                hit = [sg for sg in sigs if any(sg.startswith(w) for w in want)] if want else sigs
                ok = r.returncode == 1 and bool(hit)
                if meta.get("expected_missed"):
                    # recorded honestly as outside the workload; not a self-test failure either way
                    print("MUTANT %-44s %s %s exit=%d (recorded as not caught)" % (name, prop, "NOW-CAUGHT" if ok else "KNOWN-MISS", r.returncode))
                    rows.append((name, prop, True, sigs, round(time.time() - t0, 1)))
                    continue
                rows.append((name, prop, ok, sigs, round(time.time() - t0, 1)))
                print("MUTANT %-44s %s %s exit=%d %.0fs signatures=%s" % (name, prop, "CAUGHT" if ok else "MISSED", r.returncode,
                                                                       time.time() - t0, sigs))
                if not ok:
                    failures += 1
                    print(out[-1200:])
        finally:
            shutil.rmtree(work, ignore_errors=True)
    print("selftest-mutants: %d checked, %d missed" % (len(rows), failures))
    return 1 if failures else 0


def main():
    ap = argparse.ArgumentParser()
    ap.add_argument("target", nargs="?")
    ap.add_argument("names", nargs="*")
    ap.add_argument("--tier", default=os.environ.get("VERIF_TIER", "quick"), choices=("quick", "thorough"))
    ap.add_argument("--runs", type=int)
    ap.add_argument("--start", type=int, default=0)
    ap.add_argument("--workers", type=int, default=int(os.environ.get("VERIF_WORKERS", "16")))
    ap.add_argument("--replay")
    ap.add_argument("--digests-out")
    ap.add_argument("--quiet", action="store_true")
    args = ap.parse_args()
    if args.replay:
        sys.exit(replay_file(args.replay, args.quiet))
    reexec_pinned()
    if args.target == "selftest-findings":
        sys.exit(selftest_findings())
    if args.target == "selftest-determinism":
        sys.exit(selftest_determinism(args.names, args.runs))
    if args.target == "selftest-mutants":
        sys.exit(selftest_mutants(args.names, args.runs))
    if args.target in REGISTRY:
        sys.exit(run_check(args.target, args.tier, args.runs, args.workers, start=args.start, digests_out=args.digests_out))
    ap.error("unknown target %r (properties: %s)" % (args.target, ", ".join(sorted(REGISTRY))))


if __name__ == "__main__":
    sys.path.insert(0, VERIF)
    main()
