"""Lock-free in-process reference cache backends for Mako (CacheImpl plug-ins).

SimDictCache  - a dict per (template cache id); no locks, so threads parked by
                the scheduler never hold a real lock (C16).
RecordingCache - same store plus a log of every call's arguments (C17), with
                pass_context selectable.
Both keep their store in a module-level registry so that a test can inspect
and share it between templates: STORE[cache.id][key] = value.
"""

from mako.cache import CacheImpl

STORE = {}
LOG = []
FAIL = {"get_or_create": 0, "invalidate": 0}  # countdown fault injection: raise when it reaches 1


class BackendError(Exception):
    pass


def reset():
    STORE.clear()
    del LOG[:]
    FAIL["get_or_create"] = 0
    FAIL["invalidate"] = 0


class SimDictCache(CacheImpl):
    pass_context = False

    def _ns(self):
        # like Beaker's starttime rule: a recompiled template starts with a clean namespace
        return STORE.setdefault((self.cache.id, self.cache.starttime), {})

    def get_or_create(self, key, creation_function, **kw):
        ns = self._ns()
        if key in ns:
            return ns[key]
        value = creation_function()
        ns[key] = value
        return value

    def set(self, key, value, **kw):
        self._ns()[key] = value

    def get(self, key, **kw):
        return self._ns().get(key)

    def invalidate(self, key, **kw):
        self._ns().pop(key, None)


class RecordingCache(SimDictCache):
    pass_context = False

    def _fail(self, which):
        n = FAIL.get(which, 0)
        if n:
            FAIL[which] = n - 1
            if n == 1:
                raise BackendError("injected backend error in " + which)

    def get_or_create(self, key, creation_function, **kw):
        LOG.append(("get_or_create", self.cache.id, key, dict(kw)))
        self._fail("get_or_create")
        return SimDictCache.get_or_create(self, key, creation_function, **kw)

    def set(self, key, value, **kw):
        LOG.append(("set", self.cache.id, key, dict(kw)))
        SimDictCache.set(self, key, value, **kw)

    def get(self, key, **kw):
        LOG.append(("get", self.cache.id, key, dict(kw)))
        return SimDictCache.get(self, key, **kw)

    def invalidate(self, key, **kw):
        LOG.append(("invalidate", self.cache.id, key, dict(kw)))
        self._fail("invalidate")
        SimDictCache.invalidate(self, key, **kw)


class RecordingCacheCtx(RecordingCache):
    pass_context = True


def register():
    from mako import cache

    cache.register_plugin("simdict", "vsim.simcache", "SimDictCache")
    cache.register_plugin("simrec", "vsim.simcache", "RecordingCache")
    cache.register_plugin("simrecctx", "vsim.simcache", "RecordingCacheCtx")
