"""Lock-free in-process reference cache backends for Mako (CacheImpl plug-ins).

SimDictCache  - a dict per (template cache id); no locks, so threads parked by
                the scheduler never hold a real lock (C16).
RecordingCache - same store plus a log of every call's arguments (C17), with
                pass_context selectable.
Both keep their store in a module-level registry so that a test can inspect
and share it between templates: STORE[cache.id][key] = value.
"""

from mako.cache import CacheImpl

STORE = {}
LOG = []
ARGS = []  # (cache id, key, backend arguments) of every SimDictCache.get_or_create call
FAIL = {"get_or_create": 0, "invalidate": 0}  # countdown fault injection: raise when it reaches 1


class BackendError(Exception):
    pass


def reset():
    STORE.clear()
    del LOG[:]
    del ARGS[:]
    FAIL["get_or_create"] = 0
    FAIL["invalidate"] = 0


CLOCK = [None]  # a SimClock; entries are stamped with it and expire by their timeout argument


def _now():
    c = CLOCK[0]
    return c.now if c is not None else 0.0


class SimDictCache(CacheImpl):
    pass_context = False

    def _ns(self):
        # like Beaker's starttime rule: a recompiled template starts with a clean namespace
        return STORE.setdefault((self.cache.id, self.cache.starttime), {})

    def _live(self, ns, key, timeout):
        ent = ns.get(key)
        if ent is None:
            return None
        if timeout is not None and _now() >= ent[1] + timeout:
            return None
        return ent

    def get_or_create(self, key, creation_function, **kw):
        ARGS.append((self.cache.id, key, {k: v for k, v in kw.items() if k != "context"}))
        ns = self._ns()
        ent = self._live(ns, key, kw.get("timeout"))
        if ent is not None:
            return ent[0]
        value = creation_function()
        ns[key] = (value, _now())
        return value

    def set(self, key, value, **kw):
        self._ns()[key] = (value, _now())

    def get(self, key, **kw):
        ent = self._live(self._ns(), key, kw.get("timeout"))
        return ent[0] if ent is not None else None

    def invalidate(self, key, **kw):
        self._ns().pop(key, None)


class RecordingCache(SimDictCache):
    pass_context = False

    def _fail(self, which):
        n = FAIL.get(which, 0)
        if n:
            FAIL[which] = n - 1
            if n == 1:
                raise BackendError("injected backend error in " + which)

    def get_or_create(self, key, creation_function, **kw):
        LOG.append(("get_or_create", self.cache.id, key, dict(kw)))
        self._fail("get_or_create")
        return SimDictCache.get_or_create(self, key, creation_function, **kw)

    def set(self, key, value, **kw):
        LOG.append(("set", self.cache.id, key, dict(kw)))
        SimDictCache.set(self, key, value, **kw)

    def get(self, key, **kw):
        LOG.append(("get", self.cache.id, key, dict(kw)))
        return SimDictCache.get(self, key, **kw)

    def invalidate(self, key, **kw):
        LOG.append(("invalidate", self.cache.id, key, dict(kw)))
        self._fail("invalidate")
        SimDictCache.invalidate(self, key, **kw)


class RecordingCacheCtx(RecordingCache):
    pass_context = True


def register():
    from mako import cache

    cache.register_plugin("simdict", "vsim.simcache", "SimDictCache")
    cache.register_plugin("simrec", "vsim.simcache", "RecordingCache")
    cache.register_plugin("simrecctx", "vsim.simcache", "RecordingCacheCtx")
