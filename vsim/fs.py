"""The simulated world a run lives in: a real scratch tree on tmpfs whose
*timing, mtimes and call outcomes* are owned by the simulator.

Every file-system call Mako makes goes through `World.seam()`: it is counted,
logged, may be failed / torn / crashed by the fault plan, is a scheduling point
(threads) or lock-step point (process nodes), and moves the simulated clock by
the run's auto-tick.  The file system itself is real (POSIX rename atomicity,
O_EXCL, open descriptors surviving rename need no model).
"""

import errno
import os
import shutil
import sys

import re

_TMP_PID = re.compile(r"tmp_\d+_")
_real_os = os
_real_open = open

SCRATCH_BASE = "/dev/shm" if os.path.isdir("/dev/shm") else (os.environ.get("TMPDIR") or "/tmp")

_scratch_counter = [0]


def new_scratch_root(tag="run"):
    _scratch_counter[0] += 1
    path = os.path.join(
        SCRATCH_BASE, "mako-verif-%d-%s-%d" % (os.getpid(), tag, _scratch_counter[0])
    )
    os.makedirs(path)
    return path


def sweep_stale_scratch():
    """Remove scratch trees left behind by processes that no longer exist (killed workers)."""
    try:
        names = os.listdir(SCRATCH_BASE)
    except OSError:
        return 0
    n = 0
    for name in names:
        if not name.startswith("mako-verif-"):
            continue
        parts = name.split("-")
        try:
            pid = int(parts[2])
        except (IndexError, ValueError):
            continue
        try:
            os.kill(pid, 0)
            continue  # owner still alive
        except ProcessLookupError:
            pass
        except PermissionError:
            continue
        shutil.rmtree(os.path.join(SCRATCH_BASE, name), ignore_errors=True)
        n += 1
    return n


def remove_tree(path):
    shutil.rmtree(path, ignore_errors=True)


class Fault:
    """A planned fault: fires at the `nth` seam call labelled `call` inside
    operation `op` (op None = any op, counting from the start of the run /
    node).  kind in: eio enospc short-write rename-fails vanish unreadable
    crash-before crash-after crash-mid."""

    __slots__ = ("kind", "op", "call", "nth", "arg", "fired")

    def __init__(self, kind, op=None, call=None, nth=0, arg=None):
        self.kind = kind
        self.op = op
        self.call = call
        self.nth = nth
        self.arg = arg
        self.fired = False

    def as_dict(self):
        return {"kind": self.kind, "op": self.op, "call": self.call, "nth": self.nth, "arg": self.arg}

    @classmethod
    def from_dict(cls, d):
        return cls(d["kind"], d.get("op"), d.get("call"), d.get("nth", 0), d.get("arg"))


class World:
    def __init__(self, root, clock, log, gran_ns=1, faults=(), probes=None):
        self.root = root
        self.clock = clock
        self.log = log
        self.gran_ns = int(gran_ns)
        self.faults = [f if isinstance(f, Fault) else Fault.from_dict(f) for f in faults]
        self.probes = probes if probes is not None else {}
        self.cur_op = None
        self.total_calls = 0  # seam calls since start (k of crash@k)
        self.op_calls = {}  # label -> count within the current op
        self.op_total = 0
        self.fired = []  # (kind, label, relpath, op) for every fault that fired
        self.unreadable = set()  # abs paths whose open() raises PermissionError
        self.fd_paths = {}
        self.tmp_counter = 0
        self.on_seam = None  # scheduling hook: f(label, relpath)
        self.decide = None  # optional external decision: f(k, label, relpath) -> kind|None
        self.touched = []  # relpaths opened/created (containment tripwire)
        self.module_writes = 0  # completed renames/copies into place
        self.copy_chunks = 2
        self.max_calls = 2000
        self.enabled = True
        self._arg = None
        self.clock_sync = None
        self.last_payload = None
        self.in_line_seam = False
        self.write_cap = 0
        self.opened = []  # relpaths actually opened through the seam (containment tripwire)

    # ---------------------------------------------------------------- helpers
    def rel(self, path):
        if path is None:
            return None
        if isinstance(path, str) and not path.startswith("/"):
            return path
        p = os.fspath(path)
        if isinstance(p, bytes):
            p = p.decode("utf-8", "replace")
        if p.startswith(self.root):
            return p[len(self.root):] or "/"
        return "<ext>" + p

    def stamp_ns(self):
        ns = int(round(self.clock.now * 1e9))
        return ns - (ns % self.gran_ns)

    def utime(self, target):
        ns = self.stamp_ns()
        try:
            os.utime(target, ns=(ns, ns))
        except OSError:
            pass
        return ns

    def begin_op(self, index):
        self.cur_op = index
        self.op_calls = {}
        self.op_total = 0

    def _die(self, how):
        self.log.add("crash", how)
        # kill -9 semantics: no finally, no atexit, no buffers flushed
        os._exit(137)

    # ------------------------------------------------------------------- seam
    def seam(self, label, path=None):
        """Account for one call-out.  Returns the fault kind to apply (or None)."""
        if not self.enabled:
            return None
        k = self.total_calls
        self.total_calls += 1
        nth = self.op_calls.get(label, 0)
        self.op_calls[label] = nth + 1
        self.op_total += 1
        relp = self.rel(path)
        if self.total_calls > self.max_calls:
            raise SeamCapExceeded("more than %d seam calls" % self.max_calls)
        kind = None
        if self.decide is not None:
            kind = self.decide(k, label, relp)
        else:
            for f in self.faults:
                if f.fired:
                    continue
                if f.op is not None and f.op != self.cur_op:
                    continue
                if f.call is None:
                    # absolute crash point: nth counts all seam calls
                    if f.nth != (k if f.op is None else self.op_total - 1):
                        continue
                else:
                    if f.call != label or f.nth != nth:
                        continue
                f.fired = True
                kind = f.kind
                self._arg = f.arg
                break
        # no pid in the event log: temp names (ours and any the code under test derives from getpid()) vary per process
        self.log.add("seam", k, label, _TMP_PID.sub("tmp_P_", relp).replace(str(os.getpid()), "PID") if relp else relp, kind)
        if kind is not None:
            self.fired.append((kind, label, relp, self.cur_op))
        if self.on_seam is not None:
            self.on_seam(label, relp)
        if self.clock_sync is not None:
            self.clock_sync()
        self.clock.tick()
        if kind == "crash-before":
            self._die("before:%s" % label)
        return kind

    def after(self, kind, label):
        if kind == "crash-after":
            self._die("after:%s" % label)

    # ------------------------------------------------------- intercepted calls
    def stat(self, path, *a, **kw):
        kind = self.seam("stat", path)
        if kind in ("eio",):
            raise OSError(errno.EIO, "injected EIO", os.fspath(path))
        if kind == "vanish":
            self._vanish(path)
        r = _real_os.stat(path, *a, **kw)
        self.after(kind, "stat")
        return r

    def _vanish(self, path):
        try:
            _real_os.remove(path)
        except OSError:
            pass
        self.unreadable.discard(os.fspath(path))

    def isfile(self, path):
        kind = self.seam("isfile", path)
        r = _real_os.path.isfile(path)
        if kind == "vanish" and r:
            self._vanish(path)  # gone right after the successful probe
        self.after(kind, "isfile")
        if r:
            self.touched.append(self.rel(path))
        return r

    def exists(self, path):
        kind = self.seam("exists", path)
        r = _real_os.path.exists(path)
        self.after(kind, "exists")
        return r

    def makedirs(self, name, mode=0o777, exist_ok=False):
        # os.makedirs, one real mkdir per step so a crash/fault can land between
        head, tail = _real_os.path.split(name)
        if not tail:
            head, tail = _real_os.path.split(head)
        if head and tail and not _real_os.path.exists(head):
            try:
                self.makedirs(head, mode, exist_ok=True)
            except FileExistsError:
                pass
        kind = self.seam("mkdir", name)
        if kind in ("eio", "enospc"):
            raise OSError(errno.ENOSPC if kind == "enospc" else errno.EIO, "injected " + kind, name)
        try:
            _real_os.mkdir(name, mode)
        except OSError:
            if not exist_ok or not _real_os.path.isdir(name):
                raise
        self.touched.append(self.rel(name))
        self.after(kind, "mkdir")

    def mkstemp(self, suffix=None, prefix=None, dir=None, text=False):
        kind = self.seam("mkstemp", dir)
        if kind in ("eio", "enospc"):
            raise OSError(errno.ENOSPC if kind == "enospc" else errno.EIO, "injected " + kind, dir)
        while True:
            self.tmp_counter += 1
            # like tempfile: <prefix><unique part><suffix>, the unique part being deterministic here
            name = _real_os.path.join(dir, "%s_%d_%04d%s" % (prefix if prefix is not None else "tmp", os.getpid() % 100000,
                                                               self.tmp_counter, suffix or ""))
            try:
                fd = _real_os.open(name, os.O_RDWR | os.O_CREAT | os.O_EXCL, 0o600)
                break
            except FileExistsError:
                continue
        self.fd_paths[fd] = name
        self.utime(name)
        self.touched.append(self.rel(name))
        self.after(kind, "mkstemp")
        return fd, name

    def write(self, fd, data):
        path = self.fd_paths.get(fd)
        self.last_payload = bytes(data)
        kind = self.seam("write", path)
        if kind in ("eio", "enospc"):
            raise OSError(errno.ENOSPC if kind == "enospc" else errno.EIO, "injected " + kind)
        if kind == "short-writes":
            # from now on every write() accepts at most `cap` bytes (a slow pipe / nearly full quota)
            self.write_cap = int(getattr(self, "_arg", None) or 64)
        if kind is None and self.write_cap and len(data) > self.write_cap:
            n = _real_os.write(fd, bytes(data[: self.write_cap]))
            self._stamp_fd(fd)
            return n
        if kind == "short-writes" and len(data) > self.write_cap:
            n = _real_os.write(fd, bytes(data[: self.write_cap]))
            self._stamp_fd(fd)
            return n
        if kind in ("short-write", "crash-mid") and len(data) > 1:
            frac = getattr(self, "_arg", None) or 0.5
            n = max(1, min(len(data) - 1, int(len(data) * frac)))
            _real_os.write(fd, bytes(data[:n]))
            self._stamp_fd(fd)
            if kind == "crash-mid":
                self._die("mid:write")
            return n
        n = _real_os.write(fd, data)
        self._stamp_fd(fd)
        self.after(kind, "write")
        return n

    def _stamp_fd(self, fd):
        ns = self.stamp_ns()
        try:
            os.utime(fd, ns=(ns, ns))
        except OSError:
            pass

    def close(self, fd):
        path = self.fd_paths.pop(fd, None)
        kind = self.seam("close", path)
        if kind in ("eio", "enospc"):
            # POSIX: the descriptor is released even when close reports an error
            _real_os.close(fd)
            raise OSError(errno.ENOSPC if kind == "enospc" else errno.EIO, "injected " + kind)
        _real_os.close(fd)
        self.after(kind, "close")

    def move(self, src, dst, copy_function=None):
        """shutil.move for a regular file: rename, and when rename fails the
        copy2 + unlink fallback, one real step per seam call."""
        kind = self.seam("rename", dst)
        if kind in ("eio", "enospc"):
            # a failure shutil.move does not mask (raised from the fallback too)
            raise OSError(errno.EIO, "injected " + kind, dst)
        if kind != "rename-fails":
            _real_os.rename(src, dst)
            self.module_writes += 1
            self.touched.append(self.rel(dst))
            self.after(kind, "rename")
            return dst
        # --- fallback: shutil.copy2(src, dst); os.unlink(src)
        self.copy_steps(src, dst)
        k5 = self.seam("unlink", src)
        _real_os.unlink(src)
        self.module_writes += 1
        self.after(k5, "unlink")
        return dst

    def copy_steps(self, src, dst, stat=True):
        """shutil.copyfile/copy/copy2, one real step per seam call: open+truncate, chunked writes, copystat"""
        with _real_open(src, "rb") as f:
            data = f.read()
        k2 = self.seam("copy-open", dst)
        if k2 in ("eio", "enospc"):
            raise OSError(errno.EIO, "injected " + k2, dst)
        out = _real_os.open(dst, os.O_WRONLY | os.O_CREAT | os.O_TRUNC, 0o600)
        self.touched.append(self.rel(dst))
        self.after(k2, "copy-open")
        try:
            nchunks = max(1, self.copy_chunks)
            size = max(1, (len(data) + nchunks - 1) // nchunks)
            pos = 0
            while pos < len(data):
                k3 = self.seam("copy-write", dst)
                if k3 in ("eio", "enospc"):
                    raise OSError(errno.ENOSPC, "injected " + k3, dst)
                chunk = data[pos:pos + size]
                if k3 == "crash-mid" and len(chunk) > 1:
                    _real_os.write(out, chunk[: len(chunk) // 2])
                    self._die("mid:copy-write")
                _real_os.write(out, chunk)
                self._stamp_fd(out)
                pos += len(chunk)
                self.after(k3, "copy-write")
        finally:
            _real_os.close(out)
        if stat:
            k4 = self.seam("copy-stat", dst)
            st = _real_os.stat(src)
            os.utime(dst, ns=(st.st_atime_ns, st.st_mtime_ns))
            self.after(k4, "copy-stat")
        return dst

    def os_open(self, path, flags, mode=0o777, **kw):
        """os.open called directly (a hand-rolled temp file)"""
        kind = self.seam("open-fd", path)
        if kind in ("eio", "enospc"):
            raise OSError(errno.EIO, "injected " + kind, os.fspath(path))
        fd = _real_os.open(path, flags, mode, **kw)
        if flags & (os.O_WRONLY | os.O_RDWR):
            self.fd_paths[fd] = os.fspath(path)
            self.touched.append(self.rel(path))
        self.after(kind, "open-fd")
        return fd

    def os_rename(self, which, src, dst):
        """os.rename / os.replace called directly (not through shutil.move)"""
        kind = self.seam("rename", dst)  # one label for rename/replace/shutil.move: fault plans stay valid
        if kind in ("eio", "enospc", "rename-fails"):
            raise OSError(errno.EIO, "injected " + kind, dst)
        getattr(_real_os, which)(src, dst)
        self.module_writes += 1
        self.touched.append(self.rel(dst))
        self.after(kind, "rename")

    def os_remove(self, which, path):
        kind = self.seam(which, path)
        if kind in ("eio",):
            raise OSError(errno.EIO, "injected " + kind, path)
        getattr(_real_os, which)(path)
        self.after(kind, which)

    def open(self, path, mode="r", *a, **kw):
        writing = any(c in mode for c in "wax+")
        label = "open-w" if writing else "open"
        kind = self.seam(label, path)
        ap = os.fspath(path)
        if kind == "eio":
            raise OSError(errno.EIO, "injected EIO", ap)
        if kind == "vanish":
            self._vanish(ap)
        if ap in self.unreadable or kind == "unreadable":
            if _real_os.path.exists(ap):
                raise PermissionError(errno.EACCES, "injected EACCES", ap)
        f = _real_open(path, mode, *a, **kw)
        self.touched.append(self.rel(ap))
        self.opened.append(self.rel(ap))
        if writing:
            self.utime(ap)
        self.after(kind, label)
        return f

    def load_module(self, real_load, module_id, path):
        kind = self.seam("load", path)
        m = real_load(module_id, path)
        self.after(kind, "load")
        return m

    # -------------------------------------------------- workload-side file ops
    # (the test's own edits; not seams, never faulted, stamped with sim time)
    def put_file(self, path, data, mtime=None):
        d = _real_os.path.dirname(path)
        if not _real_os.path.isdir(d):
            _real_os.makedirs(d)
        tmp = path + ".wl~"
        with _real_open(tmp, "wb") as f:
            f.write(data if isinstance(data, bytes) else data.encode("utf-8"))
        _real_os.rename(tmp, path)  # a fresh inode each time, content never torn
        return self.set_mtime(path, mtime)

    def set_mtime(self, path, mtime=None):
        if mtime is None:
            ns = self.stamp_ns()
        else:
            ns = int(round(mtime * 1e9))
            ns -= ns % self.gran_ns
        os.utime(path, ns=(ns, ns))
        return ns / 1e9

    def del_file(self, path):
        self.unreadable.discard(path)
        try:
            _real_os.remove(path)
            return True
        except OSError:
            return False


class SeamCapExceeded(Exception):
    pass


# ------------------------------------------------------------------ facades
class _PathFacade:
    def __init__(self, world):
        self._w = world

    def isfile(self, p):
        return self._w.isfile(p)

    def exists(self, p):
        return self._w.exists(p)

    def __getattr__(self, name):
        return getattr(_real_os.path, name)


class OSFacade:
    """Stands in for the `os` module inside mako.lookup / mako.template /
    mako.util.  Everything not intercepted is the real thing."""

    def __init__(self, world):
        self._w = world
        self.path = _PathFacade(world)

    def stat(self, *a, **kw):
        return self._w.stat(*a, **kw)

    def makedirs(self, *a, **kw):
        return self._w.makedirs(*a, **kw)

    def write(self, fd, data):
        return self._w.write(fd, data)

    def close(self, fd):
        return self._w.close(fd)

    def open(self, path, flags, mode=0o777, **kw):
        return self._w.os_open(path, flags, mode, **kw)

    def rename(self, src, dst):
        return self._w.os_rename("rename", src, dst)

    def replace(self, src, dst):
        return self._w.os_rename("replace", src, dst)

    def remove(self, path):
        return self._w.os_remove("remove", path)

    def unlink(self, path):
        return self._w.os_remove("unlink", path)

    def __getattr__(self, name):
        return getattr(_real_os, name)


class TempfileFacade:
    def __init__(self, world, real):
        self._w = world
        self._real = real

    def mkstemp(self, *a, **kw):
        return self._w.mkstemp(*a, **kw)

    def __getattr__(self, name):
        return getattr(self._real, name)


class ShutilFacade:
    def __init__(self, world, real):
        self._w = world
        self._real = real

    def move(self, *a, **kw):
        return self._w.move(*a, **kw)

    def copyfile(self, src, dst, **kw):
        return self._w.copy_steps(src, dst, stat=False)

    def copy(self, src, dst, **kw):
        return self._w.copy_steps(src, dst, stat=False)

    def copy2(self, src, dst, **kw):
        return self._w.copy_steps(src, dst, stat=True)

    def __getattr__(self, name):
        return getattr(self._real, name)
