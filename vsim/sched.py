"""Deterministic thread scheduler (DESIGN 2.5).

Real threading.Thread objects; exactly one holds the baton.  A thread gives
the baton away only at a *scheduling point*: SimLock operations, I/O seam
calls, Template construction entry/exit, every `line` event in the traced
mako files and generated template modules (and every opcode in a per-run set
of hot functions).  Which thread runs next is decided by a seeded strategy or
by a recorded schedule, so one seed is one exactly repeatable interleaving.
Line granularity is a subset of what CPython can do, so every simulated
schedule is a real one."""

import hashlib
import sys
import threading


class SchedulerAbort(BaseException):
    """Raised inside actor threads to unwind them after a deadlock / step cap."""


class Actor:
    def __init__(self, name, fn, index):
        self.name = name
        self.fn = fn
        self.index = index
        self.gate = threading.Semaphore(0)
        self.done = False
        self.blocked_on = None
        self.thread = None
        self.error = None
        self.in_setitem = 0
        self.steps = 0
        self.hot_seen = 0


class Scheduler:
    def __init__(self, rng, strategy="random", params=None, replay=None, max_steps=20000):
        self.rng = rng
        self.strategy = strategy
        self.params = params or {}
        self.replay = None
        if replay is not None:
            self.replay = [name for (name, n) in replay for _ in range(n)]
        self.max_steps = max_steps
        self.actors = []
        self.by_ident = {}
        self.current = None
        self.step = 0
        self.decisions = []  # run-length encoded [(name, count)]
        self.aborting = None  # None | "deadlock" | "step-cap" | "diverged"
        self.abort_info = None
        self.main_gate = threading.Semaphore(0)
        self._h = hashlib.sha256()
        self.switches = 0
        self.preemptions_left = self.params.get("preemptions", 2)
        self.preempt_steps = set(self.params.get("preempt_steps", ()))
        self.change_points = set(self.params.get("change_points", ()))
        self.quantum = self.params.get("quantum", 5)
        self.q_left = self.quantum
        self.p_switch = self.params.get("p_switch", 0.1)
        self.stall = self.params.get("stall")  # (actor index, from_step, n_steps)
        self.priorities = {}
        self.on_point = None  # invariant hook: f(step, actor, label)
        self.tracer = None
        self.timeout_decisions = []
        self.replay_timeouts = None
        import random as _random

        self.timeout_rng = _random.Random("lock-timeouts:%r" % (self.params.get("timeout_seed", 0),))
        # bias: scheduling points inside code that touches shared state ("hot") are where
        # a pre-emption matters; elsewhere threads do thread-local work
        self.is_hot = None
        self.hot_count = 0
        self.p_hot = self.params.get("p_hot", self.p_switch)
        self.hot_preempt_steps = set(self.params.get("hot_preempt_steps", ()))
        self.hot_change_points = set(self.params.get("hot_change_points", ()))
        self.sweep_fired = False
        self.replay_lenient = False  # shrunk schedules: fall back to 'keep running' instead of diverging

    # ------------------------------------------------------------- set-up
    def add_actor(self, name, fn):
        a = Actor(name, fn, len(self.actors))
        self.actors.append(a)
        return a

    def run(self, watchdog_s=60.0):
        for a in self.actors:
            self.priorities[a.name] = self.rng.random() + 1.0
        for a in self.actors:
            t = threading.Thread(target=self._actor_main, args=(a,), name="actor-" + a.name, daemon=True)
            a.thread = t
            t.start()
        first = self._choose(self.actors, None, "start")
        self.current = first
        first.gate.release()
        if not self.main_gate.acquire(timeout=watchdog_s):
            raise RuntimeError("scheduler watchdog: threads did not finish within %.0fs (step %d, current %s)"
                               % (watchdog_s, self.step, self.current and self.current.name))
        if not self.aborting:
            for a in self.actors:
                a.thread.join(timeout=5.0)

    def _actor_main(self, a):
        a.gate.acquire()
        self.by_ident[threading.get_ident()] = a
        try:
            if self.tracer is not None:
                sys.settrace(self.tracer)
            try:
                a.fn()
            finally:
                sys.settrace(None)
        except SchedulerAbort:
            pass
        except BaseException as e:  # harness-level failure inside an actor
            a.error = e
        a.done = True
        self._handoff_after_done(a)

    def _handoff_after_done(self, a):
        rest = [x for x in self.actors if not x.done]
        if not rest:
            self.main_gate.release()
            return
        if self.aborting:
            return
        runnable = [x for x in rest if x.blocked_on is None]
        if not runnable:
            self._abort("deadlock", "no runnable thread after %s finished; blocked: %s"
                        % (a.name, [(x.name, getattr(x.blocked_on, "name", "?")) for x in rest]), park=False)
            return
        nxt = self._choose(runnable, None, "exit:" + a.name)
        if self.aborting:
            return
        self.current = nxt
        nxt.gate.release()

    # ----------------------------------------------------------- decisions
    def me(self):
        return self.by_ident.get(threading.get_ident())

    def _record(self, name):
        if self.decisions and self.decisions[-1][0] == name:
            self.decisions[-1][1] += 1
        else:
            self.decisions.append([name, 1])

    def _choose(self, runnable, me, label):
        """Pick who runs after this point.  `me` is None when the caller cannot continue."""
        self.step += 1
        if self.replay is not None:
            i = self.step - 1
            if i < len(self.replay):
                name = self.replay[i]
                for a in runnable:
                    if a.name == name:
                        self._record(name)
                        return a
                if not self.replay_lenient:
                    self._abort("diverged", "replayed schedule names %s at step %d but runnable are %s"
                                % (name, self.step, [a.name for a in runnable]))
            elif not self.replay_lenient:
                self._abort("diverged", "replayed schedule exhausted at step %d" % self.step)
            nxt = me if me is not None and me in runnable else runnable[0]
            self._record(nxt.name)
            return nxt
        nxt = self._strategy(runnable, me, label)
        self._record(nxt.name)
        return nxt

    def _strategy(self, runnable, me, label):
        rng = self.rng
        hot = self.is_hot is not None and self.is_hot(label)
        if hot:
            self.hot_count += 1
            if me is not None:
                me.hot_seen += 1
        if len(runnable) == 1:
            return runnable[0]
        cands = runnable
        if self.stall is not None:
            idx, lo, n = self.stall
            if lo <= self.step < lo + n:
                c2 = [a for a in runnable if a.index != idx]
                if c2:
                    cands = c2
        s = self.strategy
        if s == "random":
            p = self.p_hot if hot else self.p_switch
            if me is not None and me in cands and rng.random() >= p:
                return me
            return cands[rng.randrange(len(cands))]
        if s == "pct":
            if me is not None and (self.step in self.change_points or (hot and self.hot_count in self.hot_change_points)):
                self.priorities[me.name] = -self.step * 1e-6 - rng.random() * 1e-7
            return max(cands, key=lambda a: self.priorities[a.name])
        if s == "pb":  # pre-emption bounded
            if me is not None and me in cands:
                if (self.step in self.preempt_steps or (hot and self.hot_count in self.hot_preempt_steps)) \
                        and self.preemptions_left > 0:
                    self.preemptions_left -= 1
                    others = [a for a in cands if a is not me]
                    return others[rng.randrange(len(others))]
                return me
            return cands[rng.randrange(len(cands))]
        if s == "sweep":
            # systematic single pre-emption: actor `sweep_actor` runs first and is pre-empted at its
            # k-th hot point; the others then run (lowest index first) until they finish or block --
            # or, with sweep_j, until the pre-empting actor's j-th hot point -- then it resumes.
            sa = self.params["sweep_actor"]
            if me is not None and me in cands:
                if me.index == sa and hot and me.hot_seen == self.params["sweep_k"]:
                    others = [a for a in cands if a is not me]
                    self.sweep_fired = True
                    return min(others, key=lambda a: a.index)
                j = self.params.get("sweep_j")
                if j is not None and me.index != sa and hot and me.hot_seen == j:
                    back = [a for a in cands if a.index == sa]
                    if back:
                        return back[0]
                return me
            order = sorted(cands, key=lambda a: a.index)
            if not self.sweep_fired:
                first = [a for a in order if a.index == sa]
                if first:
                    return first[0]
            non = [a for a in order if a.index != sa]
            return non[0] if non else order[0]
        if s == "rr":
            if me is not None and me in cands:
                self.q_left -= 1
                if self.q_left > 0:
                    return me
            self.q_left = self.quantum
            order = sorted(cands, key=lambda a: a.index)
            if me is None:
                return order[0]
            for a in order:
                if a.index > me.index:
                    return a
            return order[0]
        raise ValueError(s)

    # ------------------------------------------------------------- points
    def point(self, label):
        me = self.me()
        if me is None or me is not self.current:
            return  # not an actor thread (set-up code on the main thread)
        if self.aborting:
            threading.Event().wait()
        me.steps += 1
        self._h.update(("%s:%s\n" % (me.name, label)).encode())
        if self.on_point is not None:
            self.on_point(self.step, me, label)
        if self.step >= self.max_steps:
            self._abort("step-cap", "more than %d scheduling points" % self.max_steps)
        runnable = [a for a in self.actors if not a.done and a.blocked_on is None]
        nxt = self._choose(runnable, me, label)
        if nxt is not me:
            self.switches += 1
            self.current = nxt
            nxt.gate.release()
            me.gate.acquire()

    def block(self, lock):
        """The current actor cannot proceed until `lock` is released."""
        me = self.me()
        me.blocked_on = lock
        self._h.update(("%s:block:%s\n" % (me.name, lock.name)).encode())
        runnable = [a for a in self.actors if not a.done and a.blocked_on is None]
        if not runnable:
            me.blocked_on = None
            self._abort("deadlock", "%s blocks on %s (held by %s) and no thread is runnable"
                        % (me.name, lock.name, lock.owner and lock.owner.name))
        nxt = self._choose(runnable, None, "block")
        self.switches += 1
        self.current = nxt
        nxt.gate.release()
        me.gate.acquire()

    def decide_timeout(self):
        """Does this timed wait expire before the lock is released?  Seeded, recorded, replayable."""
        i = len(self.timeout_decisions)
        if self.replay_timeouts is not None and i < len(self.replay_timeouts):
            d = bool(self.replay_timeouts[i])
        else:
            d = self.timeout_rng.random() < self.params.get("p_lock_timeout", 0.5)
        self.timeout_decisions.append(d)
        return d

    def _abort(self, why, info, park=True):
        """End the run: record why, wake the driver, and leave every actor thread parked for good (they are
        daemon threads of a process that exits right after).  Nothing is raised inside actor threads: an
        exception raised from a trace callback on an opcode event crashes CPython 3.12."""
        if self.aborting is None:
            self.aborting = why
            self.abort_info = info
            self.main_gate.release()
        if park and self.me() is not None:
            threading.Event().wait()

    def interleaving_hash(self):
        return self._h.hexdigest()[:20]


class SimLock:
    """Non-re-entrant lock with barging, like threading.Lock, whose blocking is
    visible to the scheduler."""

    def __init__(self, sched, name="mutex"):
        self.sched = sched
        self.name = name
        self.owner = None
        self.waiters = []
        self.acquisitions = 0
        self.contended = 0
        self.timeouts = 0

    def acquire(self, blocking=True, timeout=-1):
        s = self.sched
        me = s.me()
        if me is None:
            # set-up code outside the simulation
            self.owner = "main"
            return True
        s.point("lock.acquire:" + self.name)
        while self.owner is not None:
            if not blocking:
                return False
            if timeout is not None and timeout >= 0 and s.decide_timeout():
                # a timed wait: the holder may need longer than the timeout (the scheduler decides, seeded)
                self.timeouts += 1
                return False
            self.contended += 1
            self.waiters.append(me)
            s.block(self)
        self.owner = me
        self.acquisitions += 1
        return True

    def release(self):
        s = self.sched
        me = s.me()
        if s.aborting:
            self.owner = None
            return
        if self.owner is None:
            raise RuntimeError("release unlocked lock")
        self.owner = None
        for w in self.waiters:
            w.blocked_on = None
        self.waiters = []
        if me is not None:
            s.point("lock.release:" + self.name)

    def locked(self):
        return self.owner is not None

    __enter__ = acquire

    def __exit__(self, *a):
        self.release()


class SimRLock(SimLock):
    """re-entrant variant (threading.RLock created inside mako code during a run)"""

    def __init__(self, sched, name="rlock"):
        SimLock.__init__(self, sched, name)
        self.depth = 0

    def acquire(self, blocking=True, timeout=-1):
        me = self.sched.me()
        if me is not None and self.owner is me:
            self.depth += 1
            return True
        r = SimLock.acquire(self, blocking, timeout)
        if r:
            self.depth = 1
        return r

    def release(self):
        self.depth -= 1
        if self.depth <= 0:
            SimLock.release(self)

    __enter__ = acquire


class ThreadingShim:
    """Stands in for the `threading` module inside mako modules while threads are simulated: every lock the
    code under test creates is one the scheduler can see (a real lock held by a parked thread would hang the run)."""

    def __init__(self, sched, real):
        self._sched = sched
        self._real = real
        self._n = 0

    def Lock(self):
        self._n += 1
        return SimLock(self._sched, "lock#%d" % self._n)

    def RLock(self):
        self._n += 1
        return SimRLock(self._sched, "rlock#%d" % self._n)

    def Condition(self, lock=None):
        self._n += 1
        return SimCondition(self._sched, lock if lock is not None else self.RLock(), "cond#%d" % self._n)

    def Event(self):
        self._n += 1
        return SimFlag(self._sched, "event#%d" % self._n)

    def Semaphore(self, value=1):
        self._n += 1
        return SimSemaphore(self._sched, value, "sem#%d" % self._n)

    BoundedSemaphore = Semaphore

    def __getattr__(self, name):
        return getattr(self._real, name)


class SimCondition:
    """threading.Condition over a SimLock/SimRLock: waiters are woken in FIFO order like the real one, waiting is
    visible to the scheduler (a thread nobody notifies ends the run as a deadlock), timed waits may expire."""

    def __init__(self, sched, lock, name):
        self.sched = sched
        self.lock = lock
        self.name = name
        self.owner = None  # for the scheduler's deadlock message
        self.cwaiters = []
        self.acquire = lock.acquire
        self.release = lock.release

    def __enter__(self):
        return self.lock.acquire()

    def __exit__(self, *a):
        self.lock.release()

    def _release_save(self):
        lk = self.lock
        if isinstance(lk, SimRLock):
            d = lk.depth
            lk.depth = 1
            lk.release()
            return d
        lk.release()
        return None

    def _acquire_restore(self, d):
        self.lock.acquire()
        if d is not None:
            self.lock.depth = d

    def wait(self, timeout=None):
        s = self.sched
        me = s.me()
        if me is None or self.lock.owner is not me:
            raise RuntimeError("cannot wait on un-acquired lock")
        token = [False]
        self.cwaiters.append((me, token))
        d = self._release_save()
        if timeout is not None and not token[0] and s.decide_timeout():
            self.cwaiters = [w for w in self.cwaiters if w[1] is not token]
            self._acquire_restore(d)
            return False
        while not token[0]:
            s.block(self)
        self._acquire_restore(d)
        return True

    def wait_for(self, predicate, timeout=None):
        r = predicate()
        while not r:
            if not self.wait(timeout) and timeout is not None:
                return predicate()
            r = predicate()
        return r

    def notify(self, n=1):
        me = self.sched.me()
        if me is not None and self.lock.owner is not me:
            raise RuntimeError("cannot notify on un-acquired lock")
        woken, self.cwaiters = self.cwaiters[:n], self.cwaiters[n:]
        for w, token in woken:
            token[0] = True
            w.blocked_on = None

    def notify_all(self):
        self.notify(len(self.cwaiters))

    notifyAll = notify_all


class SimFlag:
    """threading.Event the scheduler can see"""

    def __init__(self, sched, name):
        self.sched = sched
        self.name = name
        self.owner = None
        self.flag = False
        self.waiters = []

    def is_set(self):
        return self.flag

    isSet = is_set

    def set(self):
        self.flag = True
        for w in self.waiters:
            w.blocked_on = None
        self.waiters = []
        if self.sched.me() is not None:
            self.sched.point("event.set:" + self.name)

    def clear(self):
        self.flag = False

    def wait(self, timeout=None):
        s = self.sched
        me = s.me()
        if me is None:
            return self.flag
        s.point("event.wait:" + self.name)
        while not self.flag:
            if timeout is not None and s.decide_timeout():
                return False
            self.waiters.append(me)
            s.block(self)
        return True


class SimSemaphore:
    def __init__(self, sched, value, name):
        self.sched = sched
        self.name = name
        self.owner = None
        self.value = value
        self.waiters = []

    def acquire(self, blocking=True, timeout=None):
        s = self.sched
        me = s.me()
        if me is not None:
            s.point("sem.acquire:" + self.name)
        while self.value <= 0:
            if not blocking or me is None:
                return False
            if timeout is not None and s.decide_timeout():
                return False
            self.waiters.append(me)
            s.block(self)
        self.value -= 1
        return True

    def release(self, n=1):
        self.value += n
        for w in self.waiters:
            w.blocked_on = None
        self.waiters = []
        if self.sched.me() is not None:
            self.sched.point("sem.release:" + self.name)

    __enter__ = acquire

    def __exit__(self, *a):
        self.release()


class SimEvent:
    """A counter the scheduler can see threads waiting on: wait(n) blocks until the counter reaches n."""

    def __init__(self, sched, name):
        self.sched = sched
        self.name = name
        self.count = 0
        self.waiters = []
        self.owner = None

    def signal(self):
        self.count += 1
        for w in self.waiters:
            w.blocked_on = None
        self.waiters = []
        self.sched.point("event.signal:" + self.name)

    def wait(self, n=1):
        s = self.sched
        me = s.me()
        s.point("event.wait:" + self.name)
        while self.count < n:
            self.waiters.append(me)
            s.block(self)


def make_tracer(sched, traced_files, is_template_file, opcode_codes=(), setitem_code=None):
    """sys.settrace function for actor threads: every line (and, for code objects
    in `opcode_codes`, every opcode) of traced files is a scheduling point."""
    opcode_codes = set(opcode_codes)
    names = {}

    def short(fn):
        r = names.get(fn)
        if r is None:
            r = names[fn] = fn.rsplit("/", 1)[-1]
        return r

    def local(frame, event, arg):
        if event == "line":
            co = frame.f_code
            sched.point("L:%s:%s:%d" % (short(co.co_filename), co.co_name, frame.f_lineno))
        elif event == "opcode":
            co = frame.f_code
            sched.point("O:%s:%s:%d" % (short(co.co_filename), co.co_name, frame.f_lasti))
        elif event == "return" and frame.f_code is setitem_code:
            a = sched.me()
            if a is not None:
                a.in_setitem -= 1
        return local

    hot_files = tuple(f for f in traced_files if f.endswith(("/lookup.py", "/util.py")))

    def tracer(frame, event, arg):
        if event != "call":
            return None
        co = frame.f_code
        fn = co.co_filename
        if fn not in traced_files and not is_template_file(fn):
            # pure-Python library code called from the lookup / LRU code (a key function, heapq, ...) runs
            # without any lock too: trace it while its caller is one of those frames (one level)
            back = frame.f_back
            if back is not None and back.f_trace is not None and back.f_code.co_filename in hot_files \
                    and not fn.startswith("<") and "/vsim/" not in fn and "/engines/" not in fn:
                return local
            return None
        if fn in traced_files or is_template_file(fn):
            if co in opcode_codes:
                frame.f_trace_opcodes = True
            if co is setitem_code:
                a = sched.me()
                if a is not None:
                    a.in_setitem += 1
            return local
        return None

    return tracer
