"""Trace minimisation: delta-debug the operation list, drop faults and files one
by one, then engine-specific simplifications -- keeping only candidates that
fail with the *same violation signature*.  Every candidate runs in a fresh
fork, so a shrunk trace is known to fail on its own."""

import copy
import time

from . import runner


def fails_with(engine, trace, signature, timeout=30.0):
    status, res = runner.execute_isolated(engine, trace, timeout)
    if status != "ok":
        return None
    for v in res.get("violations", []):
        if v["signature"] == signature:
            return res
    return None


def _drop_op(trace, j):
    t = copy.deepcopy(trace)
    del t["ops"][j]
    faults = []
    for f in t.get("faults", []):
        if f.get("op") is None:
            faults.append(f)
        elif f["op"] == j:
            continue
        elif f["op"] > j:
            g = dict(f)
            g["op"] = f["op"] - 1
            faults.append(g)
        else:
            faults.append(f)
    t["faults"] = faults
    return t


def _drop_ops(trace, lo, hi):
    t = trace
    for j in range(hi - 1, lo - 1, -1):
        t = _drop_op(t, j)
    return t


def shrink(engine, trace, signature, budget_s=25.0, max_tries=400):
    """Returns (smaller_trace, tries)."""
    deadline = time.monotonic() + budget_s
    tries = [0]
    best = copy.deepcopy(trace)

    def ok(cand):
        if time.monotonic() > deadline or tries[0] >= max_tries:
            return False
        tries[0] += 1
        return fails_with(engine, cand, signature) is not None

    # 1. ddmin over the op list
    if "ops" in best:
        n = 2
        while len(best["ops"]) >= 2 and time.monotonic() < deadline and tries[0] < max_tries:
            L = len(best["ops"])
            chunk = max(1, L // n)
            reduced = False
            for lo in range(0, L, chunk):
                cand = _drop_ops(best, lo, min(L, lo + chunk))
                if ok(cand):
                    best = cand
                    n = max(n - 1, 2)
                    reduced = True
                    break
            if not reduced:
                if chunk == 1:
                    break
                n = min(L, n * 2)
    # 2. drop faults, files, other engine-declared lists one element at a time
    for key in getattr(engine, "SHRINK_LISTS", ("faults", "files")):
        if key not in best:
            continue
        j = 0
        while j < len(best[key]) and time.monotonic() < deadline and tries[0] < max_tries:
            cand = copy.deepcopy(best)
            del cand[key][j]
            if ok(cand):
                best = cand
            else:
                j += 1
    # 3. engine-specific simplifications (smaller arguments, simpler config, fewer switches)
    simp = getattr(engine, "simplifications", None)
    if simp is not None:
        progress = True
        while progress and time.monotonic() < deadline and tries[0] < max_tries:
            progress = False
            for cand in simp(best):
                if ok(cand):
                    best = cand
                    progress = True
                    break
    return best, tries[0]
