"""16-way fork driver.  Every run executes in a fresh fork of a warmed parent,
so process-global state (ModuleInfo._modules, lexer regexp cache, Beaker's
CacheManager, warnings registries) never carries over between runs: a run is a
function of its trace, not of what its worker did before.  No
multiprocessing.Pool: a dead or hung child is noticed by the worker's own
select() watchdog and reported as a harness error (never as a pass)."""

import gc
import os
import pickle
import select
import signal
import sys
import time
import traceback

from . import fs
from .core import mkrng, run_seed, merge_counts


def _read_all(fd, deadline):
    chunks = []
    while True:
        left = deadline - time.monotonic()
        if left <= 0:
            return None
        r, _, _ = select.select([fd], [], [], left)
        if not r:
            return None
        b = os.read(fd, 1 << 20)
        if not b:
            return b"".join(chunks)
        chunks.append(b)


def run_in_child(fn, args, timeout):
    """Run fn(*args) in a forked child; returns ('ok', value) | ('error', text)
    | ('timeout', None) | ('died', status)."""
    rfd, wfd = os.pipe()
    sys.stdout.flush()
    sys.stderr.flush()
    pid = os.fork()
    if pid == 0:
        code = 0
        try:
            os.close(rfd)
            gc.disable()
            try:
                out = ("ok", fn(*args))
            except BaseException:
                out = ("error", traceback.format_exc())
            data = pickle.dumps(out, protocol=pickle.HIGHEST_PROTOCOL)
            view = memoryview(data)
            while view:
                n = os.write(wfd, view)
                view = view[n:]
            os.close(wfd)
        except BaseException:
            code = 3
        finally:
            os._exit(code)
    os.close(wfd)
    data = _read_all(rfd, time.monotonic() + timeout)
    os.close(rfd)
    if data is None:
        try:
            os.kill(pid, signal.SIGKILL)
        except OSError:
            pass
        os.waitpid(pid, 0)
        return ("timeout", None)
    _, status = os.waitpid(pid, 0)
    if not data:
        return ("died", status)
    try:
        return pickle.loads(data)
    except Exception:
        return ("error", "unpicklable result (status %r)" % status)


class Aggregate:
    MAX_PER_SIG = 4

    def __init__(self):
        self.runs = 0
        self.skipped = 0
        self.violations = {}  # signature -> {"count": n, "cases": [(size, idx, trace, result)]}
        self.counters = {}  # name -> dict of counts
        self.sets = {}  # name -> set of hashes
        self.case_hashes = set()
        self.nontrivial = 0
        self.samples = []
        self.harness_errors = []
        self.sim_seconds = 0.0
        self.digests = {}
        self.first_index = None
        self.last_index = None
        self.totals = {}

    def add(self, idx, trace, res, keep_digests=False, size_fn=None):
        self.runs += 1
        self.first_index = idx if self.first_index is None else min(self.first_index, idx)
        self.last_index = idx if self.last_index is None else max(self.last_index, idx)
        for name, d in res.get("counters", {}).items():
            merge_counts(self.counters.setdefault(name, {}), d)
        for name, hs in res.get("hashes", {}).items():
            self.sets.setdefault(name, set()).update(hs)
        merge_counts(self.totals, res.get("totals", {}))
        self.sim_seconds += res.get("sim_seconds", 0.0)
        if res.get("nontrivial"):
            self.nontrivial += 1
            self.case_hashes.add(res.get("case_hash"))
        if keep_digests:
            self.digests[idx] = res.get("digest")
        if res.get("sample") is not None and len(self.samples) < 3:
            self.samples.append(res["sample"])
        if res.get("violations") and res.get("trace_patch"):
            trace = dict(trace)
            trace.update(res["trace_patch"])  # e.g. the schedule actually taken, for exact replay
        for v in res.get("violations", []):
            sig = v["signature"]
            ent = self.violations.setdefault(sig, {"count": 0, "cases": []})
            ent["count"] += 1
            size = size_fn(trace) if size_fn else 0
            cases = ent["cases"]
            vtrace = trace
            if v.get("trace_patch"):
                vtrace = dict(trace)
                vtrace.update(v["trace_patch"])  # narrows the replay to this violation's own fault
            if len(cases) < self.MAX_PER_SIG or size < cases[-1][0]:
                cases.append((size, idx, vtrace, v))
                cases.sort(key=lambda c: (c[0], c[1]))
                del cases[self.MAX_PER_SIG:]

    def merge(self, o):
        self.runs += o.runs
        self.skipped += o.skipped
        for name, d in o.counters.items():
            merge_counts(self.counters.setdefault(name, {}), d)
        for name, s in o.sets.items():
            self.sets.setdefault(name, set()).update(s)
        merge_counts(self.totals, o.totals)
        self.case_hashes |= o.case_hashes
        self.nontrivial += o.nontrivial
        self.sim_seconds += o.sim_seconds
        self.digests.update(o.digests)
        for s in o.samples:
            if len(self.samples) < 3:
                self.samples.append(s)
        self.harness_errors.extend(o.harness_errors)
        for idx in (o.first_index, o.last_index):
            if idx is not None:
                self.first_index = idx if self.first_index is None else min(self.first_index, idx)
                self.last_index = idx if self.last_index is None else max(self.last_index, idx)
        for sig, ent in o.violations.items():
            mine = self.violations.setdefault(sig, {"count": 0, "cases": []})
            mine["count"] += ent["count"]
            mine["cases"].extend(ent["cases"])
            mine["cases"].sort(key=lambda c: (c[0], c[1]))
            del mine["cases"][self.MAX_PER_SIG:]


def execute_isolated(engine, trace, timeout=60.0):
    """One run in a fresh fork with its own scratch tree (removed afterwards)."""
    root = fs.new_scratch_root(engine.NAME)
    try:
        return run_in_child(engine.execute, (trace, root), timeout)
    finally:
        fs.remove_tree(root)


def _worker(engine, seed, tier, indices, deadline, per_run_timeout, keep_digests, wfd, gen_kw):
    agg = Aggregate()
    size_fn = getattr(engine, "trace_size", None)
    for idx in indices:
        if deadline is not None and time.monotonic() > deadline:
            agg.skipped += 1
            continue
        try:
            trace = engine.generate(mkrng(run_seed(seed, engine.NAME, idx)), tier, idx, **gen_kw)
        except Exception:
            agg.harness_errors.append({"index": idx, "what": "generate", "detail": traceback.format_exc()})
            continue
        trace.setdefault("verif_seed", seed)
        trace.setdefault("run_index", idx)
        status, res = execute_isolated(engine, trace, per_run_timeout)
        if status != "ok":
            agg.harness_errors.append({"index": idx, "what": status, "detail": str(res)[-3000:]})
            agg.runs += 1
            continue
        agg.add(idx, trace, res, keep_digests=keep_digests, size_fn=size_fn)
    data = pickle.dumps(agg, protocol=pickle.HIGHEST_PROTOCOL)
    view = memoryview(data)
    while view:
        n = os.write(wfd, view)
        view = view[n:]
    os.close(wfd)


def run_batch(engine, seed, tier, n_runs, workers=16, start_index=0, wall_budget=None,
              per_run_timeout=60.0, keep_digests=False, gen_kw=None):
    """Run indices [start_index, start_index+n_runs) over `workers` processes."""
    gen_kw = gen_kw or {}
    workers = max(1, min(workers, n_runs))
    deadline = (time.monotonic() + wall_budget) if wall_budget else None
    procs = []
    sys.stdout.flush()
    sys.stderr.flush()
    for w in range(workers):
        rfd, wfd = os.pipe()
        indices = range(start_index + w, start_index + n_runs, workers)
        pid = os.fork()
        if pid == 0:
            code = 0
            try:
                os.close(rfd)
                for (_, other, _) in procs:
                    os.close(other)
                _worker(engine, seed, tier, indices, deadline, per_run_timeout, keep_digests, wfd, gen_kw)
            except BaseException:
                traceback.print_exc()
                code = 3
            finally:
                os._exit(code)
        os.close(wfd)
        procs.append((pid, rfd, len(indices)))
    total = Aggregate()
    # generous: every run could hit its watchdog
    for pid, rfd, n in procs:
        # safety net only (every run has its own watchdog inside the worker): must never fire on a merely slow,
        # heavily loaded machine
        hard = time.monotonic() + (wall_budget or 0) + n * min(per_run_timeout, 30.0) + 3600
        data = _read_all(rfd, hard)
        os.close(rfd)
        if data is None:
            try:
                os.kill(pid, signal.SIGKILL)
            except OSError:
                pass
            os.waitpid(pid, 0)
            total.harness_errors.append({"what": "worker-timeout", "detail": "worker %d" % pid})
            continue
        _, status = os.waitpid(pid, 0)
        if not data or status != 0:
            total.harness_errors.append({"what": "worker-died", "detail": "status %r" % status})
            if not data:
                continue
        try:
            total.merge(pickle.loads(data))
        except Exception:
            total.harness_errors.append({"what": "worker-result", "detail": traceback.format_exc()})
    return total
