"""Run-time helpers imported by the C13 engine's generated templates.  Every
call a render makes out of generated code funnels through callout(i): the
engine decides which dynamic invocation raises."""


class Boom(TypeError, KeyError, ValueError, AttributeError, RuntimeError):
    """The injected exception.  It is also an instance of the builtin exception classes library code
    likes to catch around small operations, so a handler that is too wide (a try/except TypeError that
    grew to cover a user call) swallows it and is noticed."""

    def __str__(self):
        return str(self.args[0]) if self.args else ""


class BoomBase(BaseException):
    """injected for the 'not an Exception' placements (SystemExit / KeyboardInterrupt-like)"""

    def __init__(self, msg, code=7):
        BaseException.__init__(self, msg, code)
        self.code = code


class State:
    def __init__(self):
        self.reset(None)

    def reset(self, fault):
        self.counts = {}
        self.fault = tuple(fault[:2]) if fault else None  # (callout id, occurrence) or None
        self.base = bool(fault and len(fault) > 2 and fault[2] == "base")
        self.raised = None
        self.order = []  # dynamic order of call-outs (id, occurrence)
        self.total = 0


ST = State()


def callout(i):
    st = ST
    n = st.counts.get(i, 0) + 1
    st.counts[i] = n
    st.total += 1
    st.order.append((i, n))
    if st.fault is not None and st.fault == (i, n):
        st.raised = (BoomBase if st.base else Boom)("boom(%s,%d)" % (i, n))
        raise st.raised


def p(i):
    callout(i)
    return "p%d" % i


class S:
    """object whose __str__ is a call-out"""

    def __init__(self, i):
        self.i = i

    def __str__(self):
        callout(self.i)
        return "s%d" % self.i


def flt(i):
    def f(text):
        callout(i)
        return "{" + text + "}"

    return f


def dec(i):
    def decorator(fn):
        def wrapper(context, *a, **kw):
            callout(i)
            return fn(*a, **kw)

        return wrapper

    return decorator


class It:
    def __init__(self, i, n):
        self.i = i
        self.n = n
        self.k = 0

    def __iter__(self):
        return self

    def __next__(self):
        callout(self.i)
        if self.k >= self.n:
            raise StopIteration
        self.k += 1
        return self.k - 1


def it(i, n, c=None):
    if c is not None:
        callout(c)  # evaluating the iterable expression is a call-out of its own
    return It(i, n)


def _make_sc():
    from mako.runtime import supports_caller

    @supports_caller
    def sc(context, i):
        """a plain Python function taking part in the caller stack (mako.runtime.supports_caller)"""
        callout(i)
        context.write("sc%d" % i)
        return ""

    return sc


sc = _make_sc()
