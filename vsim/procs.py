"""Process nodes (DESIGN 2.6): a "Mako process" is a forked child executing a
task with the seams installed.  At every seam call it reports
(k, label, path, payload-of-a-write, observed state of the watched path) up a
pipe.  In *local* mode it follows its own fault plan (crash = os._exit inside
the seam: no finally runs, nothing in memory survives, like kill -9).  In
*lock-step* mode it then waits for the driver's decision, so several real
processes sharing one module directory run in a driver-chosen, replayable
order -- exactly one node runs between two seam points."""

import gc
import hashlib
import os
import pickle
import struct
import sys
import traceback

from . import seams
from .core import EventLog, SimClock
from .fs import World


def _send(fd, obj):
    data = pickle.dumps(obj, protocol=pickle.HIGHEST_PROTOCOL)
    data = struct.pack("<I", len(data)) + data
    view = memoryview(data)
    while view:
        n = os.write(fd, view)
        view = view[n:]


def _recv_exact(fd, n):
    chunks = []
    while n:
        b = os.read(fd, n)
        if not b:
            return None
        chunks.append(b)
        n -= len(b)
    return b"".join(chunks)


def _recv(fd):
    head = _recv_exact(fd, 4)
    if head is None:
        return None
    (n,) = struct.unpack("<I", head)
    body = _recv_exact(fd, n)
    if body is None:
        return None
    return pickle.loads(body)


def observe(path):
    """State of the watched path as an outside observer sees it right now."""
    if path is None:
        return None
    try:
        with open(path, "rb") as f:
            data = f.read()
    except FileNotFoundError:
        return None
    except OSError as e:
        return "err:%s" % e.errno
    return hashlib.sha1(data).hexdigest()


class Node:
    def __init__(self, name, pid, up, down):
        self.name = name
        self.pid = pid
        self.up = up
        self.down = down
        self.events = []  # ("seam", k, label, relpath, payload, obs)
        self.result = None
        self.finished = False  # sent its result
        self.dead = False  # EOF on the pipe
        self.status = None
        self.pending = None  # the seam message it is waiting at (lock-step)
        self.end_clock = None
        self.fired = []
        self.writes = 0
        self.total_calls = 0

    def next_message(self):
        msg = _recv(self.up)
        if msg is None:
            self.dead = True
            try:
                os.close(self.up)
            except OSError:
                pass
            _, self.status = os.waitpid(self.pid, 0)
            if self.down is not None:
                try:
                    os.close(self.down)
                except OSError:
                    pass
            return None
        if msg[0] == "seam":
            self.events.append(msg)
        elif msg[0] == "done":
            self.result = msg[1]
            self.end_clock, self.fired, self.writes, self.total_calls = msg[2], msg[3], msg[4], msg[5]
            self.finished = True
        return msg

    def reply(self, kind, now, arg=None):
        _send(self.down, (kind, now, arg))

    def run_to_end(self):
        """local mode: drain everything until the node exits or dies"""
        while not self.dead:
            self.next_message()
        return self

    @property
    def crashed(self):
        return self.dead and not self.finished


def spawn(name, root, task, task_args, clock_now, cfg, faults=(), lockstep=False, watch=None):
    """task(world, clock, *task_args) -> picklable result, executed in the child."""
    up_r, up_w = os.pipe()
    if lockstep:
        down_r, down_w = os.pipe()
    else:
        down_r = down_w = None
    sys.stdout.flush()
    sys.stderr.flush()
    pid = os.fork()
    if pid != 0:
        os.close(up_w)
        if down_r is not None:
            os.close(down_r)
        return Node(name, pid, up_r, down_w)
    # ------------------------------------------------------------- child
    code = 0
    try:
        os.close(up_r)
        if down_w is not None:
            os.close(down_w)
        gc.disable()
        clock = SimClock(start=clock_now, auto_tick=0.0 if lockstep else cfg.get("auto_tick", 0.0))
        log = EventLog()
        world = World(root, clock, log, gran_ns=cfg.get("gran_ns", 1), faults=faults)
        world.copy_chunks = cfg.get("copy_chunks", 2)
        sys.dont_write_bytecode = not cfg.get("write_bytecode", False)

        if lockstep:
            def decide(k, label, relp):
                payload = world.last_payload if label == "write" else None
                _send(up_w, ("seam", k, label, relp, payload, observe(watch)))
                kind, now, arg = _recv(down_r)
                clock.now = now
                world._arg = arg
                return kind

            world.decide = decide
        else:
            def report(label, relp):
                payload = world.last_payload if label == "write" else None
                _send(up_w, ("seam", world.total_calls - 1, label, relp, payload, observe(watch)))

            world.on_seam = report
        seams.install(world, clock)
        if cfg.get("line_points", True):
            install_line_points(world)
        try:
            res = ("ok", task(world, clock, *task_args))
        except BaseException:
            res = ("error", traceback.format_exc())
        _send(up_w, ("done", res, clock.now, list(world.fired), world.module_writes, world.total_calls))
        os.close(up_w)
    except BaseException:
        code = 3
    finally:
        os._exit(code)


def install_line_points(world):
    """Every executed line of the functions in mako/template.py that decide about and write module files
    (and of util.verify_directory) is a seam call labelled "line": a process can die, or another process can
    run, between any two lines there -- also between an open() and the write()/close() of code that does not
    go through the intercepted os/tempfile/shutil calls.  sys.monitoring (3.12) delivers LINE events for
    these code objects only, so lexing and code generation run at full speed."""
    mon = getattr(sys, "monitoring", None)
    if mon is None:
        return False
    import types

    import mako.template
    import mako.util

    codes = {}
    skip = {"_compile", "_compile_text", "__init__"}

    def add(fn):
        code = getattr(fn, "__code__", None)
        if code is not None and code.co_filename == mako.template.__file__ and fn.__name__ not in skip:
            codes[code] = fn.__name__

    for obj in vars(mako.template).values():
        if isinstance(obj, types.FunctionType):
            add(obj)
    for name in ("_compile_from_file",):
        add(mako.template.Template.__dict__[name])
    codes[mako.util.verify_directory.__code__] = "verify_directory"
    tool = mon.DEBUGGER_ID
    try:
        mon.use_tool_id(tool, "vsim")
    except ValueError:
        return False

    def on_line(code, lineno):
        if world.enabled and not world.in_line_seam:
            world.in_line_seam = True
            try:
                world.seam("line", "%s:%d" % (codes.get(code, "?"), lineno))
            finally:
                world.in_line_seam = False

    mon.register_callback(tool, mon.events.LINE, on_line)
    for code in codes:
        mon.set_local_events(tool, code, mon.events.LINE)
    return True


def run_lockstep(nodes, choose, clock, tick, on_step=None, max_steps=4000):
    """Drive lock-step nodes until all have finished or died.

    choose(waiting_nodes, step) -> (node, decision_kind, arg): the seeded scheduler.
    Returns the schedule actually taken: list of (node name, k, label, decision)."""
    schedule = []
    # every node runs up to its first seam point (deterministic order: spawn order)
    for n in nodes:
        msg = n.next_message()
        n.pending = msg if (msg is not None and msg[0] == "seam") else None
        if msg is not None and msg[0] == "done":
            n.next_message()  # EOF
    step = 0
    while True:
        waiting = [n for n in nodes if n.pending is not None]
        if not waiting:
            break
        step += 1
        if step > max_steps:
            raise RuntimeError("lock-step cap exceeded")
        node, kind, arg = choose(waiting, step)
        msg = node.pending
        node.pending = None
        clock.advance(tick)
        schedule.append((node.name, msg[1], msg[2], kind))
        node.reply(kind, clock.now, arg)
        nxt = node.next_message()
        if nxt is not None and nxt[0] == "seam":
            node.pending = nxt
        elif nxt is not None and nxt[0] == "done":
            node.next_message()  # EOF + reap
        if on_step is not None:
            on_step(node, msg, kind)
    return schedule
